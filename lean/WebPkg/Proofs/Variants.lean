import WebPkg.Model.Bundle
/-
  Mixed-radix arithmetic of the b1 "Variants" index (go/bundle/variants.go; model: Model/Bundle.lean).
  A Variants value is `v : List (List Bytes)`; each axis is `name :: possibleValues`.
  a  numberOfPossibleKeys_eq            the count is the product of the axis sizes, ≤ 10000, no empty axis
  b  indexInPossibleKeys_lt, indexInPossibleKeys_rowMajor, indexInPossibleKeys_of_keyIn
  c  possibleKeyAt_indexInPossibleKeys  possibleKeyAt ∘ indexInPossibleKeys = id
  d  indexInPossibleKeys_possibleKeyAt  indexInPossibleKeys ∘ possibleKeyAt = id below the product
  e  indexInPossibleKeys_inj
-/
namespace WebPkg.Bundle

/-- every axis has at least one possible value and the possible values are distinct -/
def Valid (v : List (List Bytes)) : Prop := ∀ vals ∈ v, 2 ≤ vals.length ∧ (vals.drop 1).Nodup

/-- number of possible values of each axis (the first element is the axis name) -/
def axisSizes (v : List (List Bytes)) : List Nat := v.map fun vals => vals.length - 1

/-- the number of possible keys: product of the axis sizes -/
def keyCount (v : List (List Bytes)) : Nat := (axisSizes v).prod

theorem keyCount_nil : keyCount [] = 1 := rfl

theorem keyCount_cons (vals : List Bytes) (rest : List (List Bytes)) :
    keyCount (vals :: rest) = (vals.length - 1) * keyCount rest := by
  simp [keyCount, axisSizes, List.prod_cons]

/-- the product written as the left fold that `numberOfPossibleKeys` computes -/
theorem keyCount_eq_foldl (v : List (List Bytes)) : keyCount v = (axisSizes v).foldl (· * ·) 1 := by
  have gen : ∀ (l : List Nat) (n : Nat), l.foldl (· * ·) n = n * l.prod := by
    intro l
    induction l with
    | nil => intro n; simp
    | cons a l ih => intro n; rw [List.foldl_cons, ih, List.prod_cons, Nat.mul_assoc]
  rw [gen, Nat.one_mul]; rfl

theorem Valid.tail {vals : List Bytes} {rest : List (List Bytes)} (h : Valid (vals :: rest)) : Valid rest :=
  fun x hx => h x (List.mem_cons_of_mem _ hx)

theorem Valid.head {vals : List Bytes} {rest : List (List Bytes)} (h : Valid (vals :: rest)) :
    2 ≤ vals.length ∧ (vals.drop 1).Nodup := h vals List.mem_cons_self

theorem keyCount_pos {v : List (List Bytes)} (h : ∀ vals ∈ v, 2 ≤ vals.length) : 0 < keyCount v := by
  induction v with
  | nil => decide
  | cons vals rest ih =>
    rw [keyCount_cons]
    have h1 := h vals List.mem_cons_self
    have h2 := ih (fun x hx => h x (List.mem_cons_of_mem _ hx))
    exact Nat.mul_pos (by omega) h2

/-! ### a. numberOfPossibleKeys -/

theorem numberOfPossibleKeys_acc (v : List (List Bytes)) (n m : Nat) (h : numberOfPossibleKeys v n = some m) :
    m = n * keyCount v ∧ (n ≤ 10000 → m ≤ 10000) ∧ ∀ vals ∈ v, 2 ≤ vals.length := by
  induction v generalizing n with
  | nil =>
    rw [numberOfPossibleKeys] at h
    injection h with h
    subst h
    exact ⟨by simp [keyCount_nil], fun h => h, by simp⟩
  | cons vals rest ih =>
    rw [numberOfPossibleKeys] at h
    by_cases h1 : vals.length ≤ 1
    · rw [if_pos h1] at h; cases h
    · rw [if_neg h1] at h
      dsimp only at h
      by_cases h2 : n * (vals.length - 1) > 10000
      · rw [if_pos h2] at h; cases h
      · rw [if_neg h2] at h
        obtain ⟨e1, e2, e3⟩ := ih _ h
        refine ⟨?_, fun _ => e2 (by omega), ?_⟩
        · rw [e1, keyCount_cons, Nat.mul_assoc]
        · intro x hx
          rcases List.mem_cons.mp hx with hx | hx
          · subst hx; omega
          · exact e3 x hx

/-- (a) `numberOfPossibleKeys` returns the product of the axis sizes; it refuses empty axes and more than
    10000 keys -/
theorem numberOfPossibleKeys_eq (v : List (List Bytes)) (n : Nat) (h : numberOfPossibleKeys v 1 = some n) :
    n = keyCount v ∧ n ≤ 10000 ∧ ∀ vals ∈ v, 2 ≤ vals.length := by
  obtain ⟨h1, h2, h3⟩ := numberOfPossibleKeys_acc v 1 n h
  exact ⟨by rw [h1, Nat.one_mul], h2 (by decide), h3⟩

/-! ### indexOf -/

theorem indexOf_some {l : List Bytes} {k : Bytes} {i : Nat} (h : indexOf l k = some i) :
    ∃ hi : i < l.length, l[i] = k := by
  unfold indexOf at h
  dsimp only at h
  by_cases hc : l.findIdx (· == k) < l.length
  · rw [if_pos hc] at h
    injection h with h
    subst h
    refine ⟨hc, ?_⟩
    have := List.findIdx_getElem (p := (· == k)) (xs := l) (w := hc)
    exact eq_of_beq this
  · rw [if_neg hc] at h; cases h

theorem indexOf_getElem {l : List Bytes} (hn : l.Nodup) {i : Nat} (hi : i < l.length) :
    indexOf l l[i] = some i := by
  have hf : l.findIdx (· == l[i]) = i := by
    rw [List.findIdx_eq hi]
    refine ⟨by simp, ?_⟩
    intro j hji
    have := (List.pairwise_iff_getElem.mp hn) j i (by omega) hi hji
    simpa using this
  unfold indexOf
  dsimp only
  rw [hf, if_pos hi]

theorem indexOf_of_mem {l : List Bytes} {k : Bytes} (h : k ∈ l) : indexOf l k = some (l.findIdx (· == k)) := by
  unfold indexOf
  dsimp only
  have : l.findIdx (· == k) < l.length := List.findIdx_lt_length.mpr ⟨k, h, by simp⟩
  rw [if_pos this]

/-! ### c. possibleKeyAt ∘ indexInPossibleKeys -/

theorem possibleKeyAtAux_of_index (v : List (List Bytes)) (vk : List Bytes) (idx0 i : Nat)
    (h : indexInPossibleKeysAux v vk idx0 = some i) : possibleKeyAtAux v i = (vk, idx0) := by
  induction v generalizing vk idx0 with
  | nil =>
    cases vk with
    | nil =>
      rw [indexInPossibleKeysAux] at h
      injection h with h
      subst h
      rfl
    | cons k ks => simp [indexInPossibleKeysAux] at h
  | cons vals rest ih =>
    cases vk with
    | nil => simp [indexInPossibleKeysAux] at h
    | cons k ks =>
      rw [indexInPossibleKeysAux] at h
      cases hj : indexOf (vals.drop 1) k with
      | none => simp only [hj] at h; cases h
      | some j =>
        simp only [hj] at h
        obtain ⟨hjl, hjk⟩ := indexOf_some hj
        have hr := ih _ _ h
        rw [possibleKeyAtAux, hr]
        dsimp only
        have hlen : (vals.drop 1).length = vals.length - 1 := List.length_drop
        rw [hlen] at hjl ⊢
        have hmod : (idx0 * (vals.length - 1) + j) % (vals.length - 1) = j := by
          rw [Nat.mul_comm, Nat.mul_add_mod, Nat.mod_eq_of_lt hjl]
        have hdiv : (idx0 * (vals.length - 1) + j) / (vals.length - 1) = idx0 := by
          rw [Nat.mul_comm, Nat.mul_add_div (by omega), Nat.div_eq_of_lt hjl, Nat.add_zero]
        rw [hmod, hdiv, List.getD_eq_getElem?_getD, List.getElem?_eq_getElem (by rw [hlen]; exact hjl),
          Option.getD_some, hjk]

/-- (c) the key found at the index of `vk` is `vk` (no hypothesis on `v` is needed for this direction) -/
theorem possibleKeyAt_indexInPossibleKeys (v : List (List Bytes)) (_hv : Valid v) (vk : List Bytes) (i : Nat)
    (h : indexInPossibleKeys v vk = some i) : possibleKeyAt v i = some vk := by
  unfold indexInPossibleKeys at h
  by_cases hl : v.length ≠ vk.length
  · rw [if_pos hl] at h; cases h
  · rw [if_neg hl] at h
    unfold possibleKeyAt
    rw [possibleKeyAtAux_of_index v vk 0 i h]
    simp

/-- (e) two keys with the same index are equal -/
theorem indexInPossibleKeys_inj (v : List (List Bytes)) (hv : Valid v) (a b : List Bytes) (i : Nat)
    (ha : indexInPossibleKeys v a = some i) (hb : indexInPossibleKeys v b = some i) : a = b := by
  have h1 := possibleKeyAt_indexInPossibleKeys v hv a i ha
  have h2 := possibleKeyAt_indexInPossibleKeys v hv b i hb
  rw [h1] at h2
  injection h2

/-! ### d. indexInPossibleKeys ∘ possibleKeyAt -/

theorem possibleKeyAtAux_length (v : List (List Bytes)) (i : Nat) : (possibleKeyAtAux v i).1.length = v.length := by
  induction v with
  | nil => rfl
  | cons vals rest ih =>
    rw [possibleKeyAtAux]
    simp [ih]

/-- the index that is left over is the quotient by the number of keys -/
theorem possibleKeyAtAux_snd (v : List (List Bytes)) (i : Nat) : (possibleKeyAtAux v i).2 = i / keyCount v := by
  induction v with
  | nil => simp [possibleKeyAtAux, keyCount_nil]
  | cons vals rest ih =>
    rw [possibleKeyAtAux]
    dsimp only
    rw [ih, keyCount_cons, List.length_drop, Nat.div_div_eq_div_mul, Nat.mul_comm]

theorem index_of_possibleKeyAtAux (v : List (List Bytes)) (hv : Valid v) (i : Nat) :
    indexInPossibleKeysAux v (possibleKeyAtAux v i).1 (possibleKeyAtAux v i).2 = some i := by
  induction v with
  | nil => rfl
  | cons vals rest ih =>
    obtain ⟨h2, hn⟩ := hv.head
    rw [possibleKeyAtAux]
    dsimp only
    rw [indexInPossibleKeysAux]
    have hlen : (vals.drop 1).length = vals.length - 1 := List.length_drop
    have hlt : (possibleKeyAtAux rest i).2 % (vals.drop 1).length < (vals.drop 1).length :=
      Nat.mod_lt _ (by rw [hlen]; omega)
    rw [List.getD_eq_getElem?_getD, List.getElem?_eq_getElem hlt, Option.getD_some, indexOf_getElem hn hlt]
    dsimp only
    rw [hlen, Nat.div_add_mod']
    exact ih hv.tail

/-- (d) below the number of keys, `possibleKeyAt` yields a key whose index is the one asked for -/
theorem indexInPossibleKeys_possibleKeyAt (v : List (List Bytes)) (hv : Valid v) (i : Nat) (hi : i < keyCount v) :
    ∃ vk, possibleKeyAt v i = some vk ∧ indexInPossibleKeys v vk = some i := by
  have hq : (possibleKeyAtAux v i).2 = 0 := by rw [possibleKeyAtAux_snd, Nat.div_eq_of_lt hi]
  refine ⟨(possibleKeyAtAux v i).1, ?_, ?_⟩
  · unfold possibleKeyAt
    simp [hq]
  · unfold indexInPossibleKeys
    have hl : ¬ (v.length ≠ (possibleKeyAtAux v i).1.length) := by rw [possibleKeyAtAux_length]; simp
    rw [if_neg hl]
    have := index_of_possibleKeyAtAux v hv i
    rw [hq] at this
    exact this

/-- `possibleKeyAt` succeeds exactly below the number of keys -/
theorem possibleKeyAt_isSome_iff (v : List (List Bytes)) (hv : Valid v) (i : Nat) :
    (∃ vk, possibleKeyAt v i = some vk) ↔ i < keyCount v := by
  constructor
  · rintro ⟨vk, h⟩
    unfold possibleKeyAt at h
    by_cases hq : (possibleKeyAtAux v i).2 ≠ 0
    · simp [hq] at h
    · have hq' : (possibleKeyAtAux v i).2 = 0 := Classical.byContradiction hq
      rw [possibleKeyAtAux_snd] at hq'
      exact (Nat.div_eq_zero_iff_lt (keyCount_pos fun x hx => (hv x hx).1)).mp hq'
  · intro hi
    obtain ⟨vk, h, _⟩ := indexInPossibleKeys_possibleKeyAt v hv i hi
    exact ⟨vk, h⟩

/-! ### b. range and row-major meaning -/

/-- position of each component of the key on its axis -/
def digitsOf : List (List Bytes) → List Bytes → List Nat
  | vals :: rest, k :: ks => (vals.drop 1).findIdx (· == k) :: digitsOf rest ks
  | _, _ => []

/-- `Σ_j d_j * Π_{k>j} size_k`: the first axis is the most significant -/
def rowMajor : List (List Bytes) → List Nat → Nat
  | _ :: rest, d :: ds => d * keyCount rest + rowMajor rest ds
  | _, _ => 0

/-- `vk` has one component per axis and each is one of the possible values of its axis -/
def KeyIn : List (List Bytes) → List Bytes → Prop
  | [], [] => True
  | vals :: rest, k :: ks => k ∈ vals.drop 1 ∧ KeyIn rest ks
  | _, _ => False

theorem indexInPossibleKeysAux_rowMajor (v : List (List Bytes)) (vk : List Bytes) (idx0 i : Nat)
    (h : indexInPossibleKeysAux v vk idx0 = some i) :
    KeyIn v vk ∧ i = idx0 * keyCount v + rowMajor v (digitsOf v vk) ∧ rowMajor v (digitsOf v vk) < keyCount v := by
  induction v generalizing vk idx0 with
  | nil =>
    cases vk with
    | nil =>
      rw [indexInPossibleKeysAux] at h
      injection h with h
      subst h
      simp [KeyIn, rowMajor, keyCount_nil]
    | cons k ks => simp [indexInPossibleKeysAux] at h
  | cons vals rest ih =>
    cases vk with
    | nil => simp [indexInPossibleKeysAux] at h
    | cons k ks =>
      rw [indexInPossibleKeysAux] at h
      cases hj : indexOf (vals.drop 1) k with
      | none => simp only [hj] at h; cases h
      | some j =>
        simp only [hj] at h
        obtain ⟨hjl, hjk⟩ := indexOf_some hj
        have hmem : k ∈ vals.drop 1 := hjk ▸ List.getElem_mem hjl
        have hjf : (vals.drop 1).findIdx (· == k) = j := by
          have := indexOf_of_mem hmem
          rw [hj] at this
          injection this with this
          exact this.symm
        obtain ⟨e1, e2, e3⟩ := ih _ _ h
        have hlen : (vals.drop 1).length = vals.length - 1 := List.length_drop
        rw [hlen] at hjl
        refine ⟨⟨hmem, e1⟩, ?_, ?_⟩
        · rw [e2, digitsOf, rowMajor, hjf, keyCount_cons, Nat.add_mul, Nat.mul_assoc, Nat.add_assoc]
        · rw [digitsOf, rowMajor, hjf, keyCount_cons]
          calc j * keyCount rest + rowMajor rest (digitsOf rest ks)
              < j * keyCount rest + keyCount rest := Nat.add_lt_add_left e3 _
            _ = (j + 1) * keyCount rest := by rw [Nat.add_mul, Nat.one_mul]
            _ ≤ (vals.length - 1) * keyCount rest := Nat.mul_le_mul_right _ hjl

/-- (b) an index is below the number of keys -/
theorem indexInPossibleKeys_lt (v : List (List Bytes)) (vk : List Bytes) (i : Nat)
    (h : indexInPossibleKeys v vk = some i) : i < keyCount v := by
  unfold indexInPossibleKeys at h
  by_cases hl : v.length ≠ vk.length
  · rw [if_pos hl] at h; cases h
  · rw [if_neg hl] at h
    obtain ⟨_, e2, e3⟩ := indexInPossibleKeysAux_rowMajor v vk 0 i h
    rw [e2, Nat.zero_mul, Nat.zero_add]
    exact e3

/-- (b) the index is the row-major position `Σ_j d_j * Π_{k>j} size_k` of the key -/
theorem indexInPossibleKeys_rowMajor (v : List (List Bytes)) (vk : List Bytes) (i : Nat)
    (h : indexInPossibleKeys v vk = some i) : KeyIn v vk ∧ i = rowMajor v (digitsOf v vk) := by
  unfold indexInPossibleKeys at h
  by_cases hl : v.length ≠ vk.length
  · rw [if_pos hl] at h; cases h
  · rw [if_neg hl] at h
    obtain ⟨e1, e2, _⟩ := indexInPossibleKeysAux_rowMajor v vk 0 i h
    rw [Nat.zero_mul, Nat.zero_add] at e2
    exact ⟨e1, e2⟩

theorem keyIn_length {v : List (List Bytes)} {vk : List Bytes} (h : KeyIn v vk) : v.length = vk.length := by
  induction v generalizing vk with
  | nil => cases vk with
    | nil => rfl
    | cons k ks => exact absurd h (by simp [KeyIn])
  | cons vals rest ih => cases vk with
    | nil => exact absurd h (by simp [KeyIn])
    | cons k ks =>
      rw [KeyIn] at h
      simp [ih h.2]

theorem indexInPossibleKeysAux_of_keyIn (v : List (List Bytes)) (vk : List Bytes) (idx0 : Nat) (h : KeyIn v vk) :
    indexInPossibleKeysAux v vk idx0 = some (idx0 * keyCount v + rowMajor v (digitsOf v vk)) := by
  induction v generalizing vk idx0 with
  | nil => cases vk with
    | nil => simp [indexInPossibleKeysAux, keyCount_nil, rowMajor]
    | cons k ks => exact absurd h (by simp [KeyIn])
  | cons vals rest ih => cases vk with
    | nil => exact absurd h (by simp [KeyIn])
    | cons k ks =>
      rw [KeyIn] at h
      rw [indexInPossibleKeysAux, indexOf_of_mem h.1]
      dsimp only
      rw [ih _ _ h.2, digitsOf, rowMajor, keyCount_cons, Nat.add_mul, Nat.mul_assoc, Nat.add_assoc]

/-- (b) every key made of possible values has an index, and it is its row-major position -/
theorem indexInPossibleKeys_of_keyIn (v : List (List Bytes)) (vk : List Bytes) (h : KeyIn v vk) :
    indexInPossibleKeys v vk = some (rowMajor v (digitsOf v vk)) := by
  unfold indexInPossibleKeys
  have hl : ¬ (v.length ≠ vk.length) := by rw [keyIn_length h]; simp
  rw [if_neg hl, indexInPossibleKeysAux_of_keyIn v vk 0 h, Nat.zero_mul, Nat.zero_add]

/-- `KeyIn` in terms of positions: same length and `vk[j]` is a possible value of axis `j` -/
theorem keyIn_iff (v : List (List Bytes)) (vk : List Bytes) :
    KeyIn v vk ↔ vk.length = v.length ∧ ∀ j (h1 : j < v.length) (h2 : j < vk.length), vk[j] ∈ (v[j]).drop 1 := by
  induction v generalizing vk with
  | nil => cases vk with
    | nil => simp [KeyIn]
    | cons k ks => simp [KeyIn]
  | cons vals rest ih => cases vk with
    | nil => simp [KeyIn]
    | cons k ks =>
      rw [KeyIn, ih]
      constructor
      · rintro ⟨hk, hl, hj⟩
        refine ⟨by simp [hl], ?_⟩
        intro j h1 h2
        cases j with
        | zero => simpa using hk
        | succ j => simpa using hj j (by simpa using h1) (by simpa using h2)
      · rintro ⟨hl, hj⟩
        refine ⟨hj 0 (by simp) (by simp), by simpa using hl, ?_⟩
        intro j h1 h2
        exact hj (j + 1) (by simpa using h1) (by simpa using h2)

end WebPkg.Bundle
