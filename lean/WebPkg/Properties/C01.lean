import WebPkg.Proofs.SxgVerify
import WebPkg.Proofs.Mice
import WebPkg.Proofs.SxgInjective
/-
  C01 — A verified signed exchange is exactly what the key holder signed.
  Signature unforgeability and hash collision resistance are never assumed inside a theorem:
  the theorems say *which message* was verified under *which key* and that the payload is the one the
  signed digest header commits to "or an explicit SHA-256 collision exists".
-/
namespace WebPkg.C01
open WebPkg.Sxg WebPkg.Spec.Policy WebPkg.Http WebPkg.Spec.Mice

/-- T1 (what was checked): whenever `Exchange.Verify` returns `(p, true)` at time `t`, there is a
    signature `s` in the parsed Signature header such that: the first certificate `main` of the chain
    fetched from `s.certUrl` has hash `s.certSha256`; `sigVerify` accepted `s.sig` under `main`'s key
    over the message **rebuilt from the exchange itself** (version, URL, status, response headers,
    method and request headers for b1/b2) and from `s`'s own validity-url / date / expires;
    `t` is inside the signed window (Go time semantics) of at most 7 days; and `p` is the MI-decoding
    of the payload under the digest header that is part of those signed headers. -/
theorem verify_checked (env : Env) (e : Exchange) (t : GoTime.T) (p : Bytes) (h : verify env e t = some p) :
    ∃ sigs, SH.parseParameterisedList e.sigHeader = some sigs ∧
      ∃ pi ∈ sigs, ∃ s, extractSignature pi = some s ∧ Acceptable env e t s p :=
  verify_some env e t p h

/-- T1b: the returned payload is the complete payload the signed digest header commits to: if that
    header is the digest of an honest record list `recs`, then `p = recs.flatten` — whatever bytes the
    (possibly tampered) `e.payload` holds — or a SHA-256 collision is exhibited. -/
theorem verified_payload_committed (env : Env) (hlen : ∀ x, (env.H x).length = 32) (e : Exchange) (t : GoTime.T)
    (p : Bytes) (h : verify env e t = some p) (recs : List Bytes) (hne : recs ≠ [])
    (hd : joined e.respHeaders e.version.mice.digestHeaderName = Mice.formatDigestHeader e.version.mice (chain env.H recs)) :
    p = recs.flatten ∨ Collision env.H := by
  obtain ⟨sigs, _, pi, _, s, _, ha⟩ := verify_checked env e t p h
  have hp := ha.payload
  unfold verifyPayload at hp
  by_cases h1 : s.integrity ≠ e.version.mice.integrityIdentifier
  · simp [h1] at hp
  · simp only [h1, if_false] at hp
    by_cases h2 : joined e.respHeaders e.version.mice.digestHeaderName = []
    · simp [h2] at hp
    · simp only [h2, if_false] at hp
      rcases Mice.decodeAll_sound env.H hlen e.version.mice recs hne e.payload
          (joined e.respHeaders e.version.mice.digestHeaderName) 16384
          (by rw [hd]; exact Mice.parse_format _ _ (Mice.chain_length env.H hlen recs hne)) with hs | hc
      · left
        cases hr : Mice.decodeAll env.H e.version.mice e.payload (joined e.respHeaders e.version.mice.digestHeaderName) 16384 with
        | mk out st =>
          rw [hr] at hp hs
          cases st with
          | eof =>
            simp only [Option.some.injEq] at hp
            rw [← hp]; exact hs.2 rfl
          | ok => simp at hp
          | errValidation => simp at hp
          | errOther => simp at hp
      · exact Or.inr hc

/-- T1c: a verified exchange never carries a banned header, in any letter case, and (b1/b2) was a GET/HEAD -/
theorem verified_policy (env : Env) (e : Exchange) (t : GoTime.T) (p : Bytes) (h : verify env e t = some p) :
    headersOk e = true ∧ ((e.version = .b1 ∨ e.version = .b2) → (e.method = mGET ∨ e.method = mHEAD)) ∧
    (e.version = .b3 → isCacheable env e = true ∧ joined e.respHeaders hContentType ≠ []) := by
  obtain ⟨_, _, _, _, s, _, ha⟩ := verify_checked env e t p h
  exact ⟨ha.headers, ha.method, fun hb => ⟨ha.cacheable hb, ha.contentType hb⟩⟩

/-- T2 (the message determines what was signed, b2/b3): two exchanges / parameter sets with the same signed
    message have the same version, cert hash, validity URL, date, expires, request URL and header block.
    (Length and int64 range hypotheses always hold for Go values.) -/
theorem signedMessage_injective (e₁ e₂ : Exchange) (h1 : e₁.version ≠ .b1) (h2 : e₂.version ≠ .b1)
    (c₁ c₂ v₁ v₂ : Bytes) (d₁ x₁ d₂ x₂ : Int) (hc1 : c₁.length = 32) (hc2 : c₂.length = 32) (m : Bytes)
    (hv1 : v₁.length < 2 ^ 64) (hv2 : v₂.length < 2 ^ 64)
    (hu1 : e₁.uri.length < 2 ^ 64) (hu2 : e₂.uri.length < 2 ^ 64)
    (hd1 : d₁ < 2 ^ 64) (hd2 : d₂ < 2 ^ 64) (hx1 : x₁ < 2 ^ 64) (hx2 : x₂ < 2 ^ 64)
    (hm1 : signedMessage e₁ (some c₁) v₁ d₁ x₁ = some m) (hm2 : signedMessage e₂ (some c₂) v₂ d₂ x₂ = some m) :
    e₁.version = e₂.version ∧ c₁ = c₂ ∧ v₁ = v₂ ∧ d₁ = d₂ ∧ x₁ = x₂ ∧ e₁.uri = e₂.uri ∧
      encodeExchangeHeaders e₁ = encodeExchangeHeaders e₂ :=
  signedMessage_b23_injective e₁ e₂ h1 h2 c₁ c₂ v₁ v₂ d₁ x₁ d₂ x₂ hc1 hc2 m hv1 hv2 hu1 hu2 hd1 hd2 hx1 hx2 hm1 hm2

/-- T2': equal b3 header blocks carry the same (name, value) entries (status and every header field) -/
theorem headers_determined_b3 (e₁ e₂ : Exchange) (hv1 : e₁.version = .b3) (hv2 : e₂.version = .b3)
    (hw1 : ∀ p ∈ responseEntries e₁, BstrEntry p) (hw2 : ∀ p ∈ responseEntries e₂, BstrEntry p)
    (hn1 : (responseEntries e₁).length < 2 ^ 64) (hn2 : (responseEntries e₂).length < 2 ^ 64)
    (h : encodeExchangeHeaders e₁ = encodeExchangeHeaders e₂) (hdr : Bytes) (hok : encodeExchangeHeaders e₁ = .ok hdr) :
    (responseEntries e₁).Perm (responseEntries e₂) :=
  encodeExchangeHeaders_b3_perm e₁ e₂ hv1 hv2 hw1 hw2 hn1 hn2 h hdr hok

/-- T3 (corollary under an explicit unforgeability hypothesis): let `Signed` be the set of messages the key
    holder of certificate `c` actually signed and assume `hEUF`: `sigVerify` under `c` accepts only those.
    If a b2/b3 exchange `e'` verifies at time `t` through certificate `main = c`, then the key holder signed a
    message built from an exchange with the same version, URL, header block, the signature's own validity URL /
    date / expires, `t` lies in that window, and the returned payload is the one the signed digest commits to
    (T1b). No tampering that changes any of these verifies. -/
theorem verify_sound_euf (env : Env) (e' : Exchange) (t : GoTime.T) (p : Bytes) (hv : e'.version ≠ .b1)
    (Signed : Bytes → Bytes → Prop)                       -- Signed certDer msg
    (hEUF : ∀ c m s, env.sigVerify c m s = true → Signed c m)
    (h : verify env e' t = some p) :
    ∃ (s : Signature) (main : CertChain.AugCert) (msg : Bytes),
      Signed main.cert msg ∧ s.certSha256 = env.H main.cert ∧ timestampsOk s t = true ∧
      signedMessage e' (some (env.H main.cert)) s.validityUrl s.date s.expires = some msg ∧
      verifyPayload env e' s = some p := by
  obtain ⟨_, _, _, _, s, _, ha⟩ := verify_checked env e' t p h
  obtain ⟨_, main, _, _, _, _, hsha, msg, hmsg, hsig⟩ := ha.chain
  exact ⟨s, main, msg, hEUF _ _ _ hsig, hsha, ha.time, hmsg, ha.payload⟩

/-! non-vacuity of hEUF: a toy scheme where the only accepted signature of `m` is `m` itself, and `Signed` = everything verified -/
example : ∃ (sv : Bytes → Bytes → Bytes → Bool) (Signed : Bytes → Bytes → Prop), ∀ c m s, sv c m s = true → Signed c m :=
  ⟨fun _ m s => m == s, fun _ _ => True, fun _ _ _ _ => trivial⟩

end WebPkg.C01
