import WebPkg.Proofs.SxgVerify
import WebPkg.Proofs.Mice
/-
  C01 — A verified signed exchange is exactly what the key holder signed.
  Signature unforgeability and hash collision resistance are never assumed inside a theorem:
  the theorems say *which message* was verified under *which key* and that the payload is the one the
  signed digest header commits to "or an explicit SHA-256 collision exists".
-/
namespace WebPkg.C01
open WebPkg.Sxg WebPkg.Spec.Policy WebPkg.Http WebPkg.Spec.Mice

/-- T1 (what was checked): whenever `Exchange.Verify` returns `(p, true)` at time `t`, there is a
    signature `s` in the parsed Signature header such that: the first certificate `main` of the chain
    fetched from `s.certUrl` has hash `s.certSha256`; `sigVerify` accepted `s.sig` under `main`'s key
    over the message **rebuilt from the exchange itself** (version, URL, status, response headers,
    method and request headers for b1/b2) and from `s`'s own validity-url / date / expires;
    `t` is inside the signed window (Go time semantics) of at most 7 days; and `p` is the MI-decoding
    of the payload under the digest header that is part of those signed headers. -/
theorem verify_checked (env : Env) (e : Exchange) (t : GoTime.T) (p : Bytes) (h : verify env e t = some p) :
    ∃ sigs, SH.parseParameterisedList e.sigHeader = some sigs ∧
      ∃ pi ∈ sigs, ∃ s, extractSignature pi = some s ∧ Acceptable env e t s p :=
  verify_some env e t p h

/-- T1b: the returned payload is the complete payload the signed digest header commits to: if that
    header is the digest of an honest record list `recs`, then `p = recs.flatten` — whatever bytes the
    (possibly tampered) `e.payload` holds — or a SHA-256 collision is exhibited. -/
theorem verified_payload_committed (env : Env) (hlen : ∀ x, (env.H x).length = 32) (e : Exchange) (t : GoTime.T)
    (p : Bytes) (h : verify env e t = some p) (recs : List Bytes) (hne : recs ≠ [])
    (hd : joined e.respHeaders e.version.mice.digestHeaderName = Mice.formatDigestHeader e.version.mice (chain env.H recs)) :
    p = recs.flatten ∨ Collision env.H := by
  obtain ⟨sigs, _, pi, _, s, _, ha⟩ := verify_checked env e t p h
  have hp := ha.payload
  unfold verifyPayload at hp
  by_cases h1 : s.integrity ≠ e.version.mice.integrityIdentifier
  · simp [h1] at hp
  · simp only [h1, if_false] at hp
    by_cases h2 : joined e.respHeaders e.version.mice.digestHeaderName = []
    · simp [h2] at hp
    · simp only [h2, if_false] at hp
      rcases Mice.decodeAll_sound env.H hlen e.version.mice recs hne e.payload
          (joined e.respHeaders e.version.mice.digestHeaderName) 16384
          (by rw [hd]; exact Mice.parse_format _ _ (Mice.chain_length env.H hlen recs hne)) with hs | hc
      · left
        cases hr : Mice.decodeAll env.H e.version.mice e.payload (joined e.respHeaders e.version.mice.digestHeaderName) 16384 with
        | mk out st =>
          rw [hr] at hp hs
          cases st with
          | eof =>
            simp only [Option.some.injEq] at hp
            rw [← hp]; exact hs.2 rfl
          | ok => simp at hp
          | errValidation => simp at hp
          | errOther => simp at hp
      · exact Or.inr hc

/-- T1c: a verified exchange never carries a banned header, in any letter case, and (b1/b2) was a GET/HEAD -/
theorem verified_policy (env : Env) (e : Exchange) (t : GoTime.T) (p : Bytes) (h : verify env e t = some p) :
    headersOk e = true ∧ ((e.version = .b1 ∨ e.version = .b2) → (e.method = mGET ∨ e.method = mHEAD)) ∧
    (e.version = .b3 → isCacheable env e = true ∧ joined e.respHeaders hContentType ≠ []) := by
  obtain ⟨_, _, _, _, s, _, ha⟩ := verify_checked env e t p h
  exact ⟨ha.headers, ha.method, fun hb => ⟨ha.cacheable hb, ha.contentType hb⟩⟩

end WebPkg.C01
