import WebPkg.Proofs.SxgRoundTrip
import WebPkg.Proofs.SxgSpec
import WebPkg.Proofs.SxgInvariant
/-
  C02 — Signed exchange survives sign → write → read → verify unchanged.
  Model: Model/Sxg.lean `write` / `read` (signedexchange.go after fix F1), Model/BigEndian.lean.
-/
namespace WebPkg.C02
open WebPkg.Sxg WebPkg.Http

/-- T1: every exchange the writer accepts is read back with identical version, URL, method (GET for b3),
    status, Signature header and payload bytes, and with each header field as (canonical name of the
    case-folded name, comma-joined values) — nothing dropped, duplicated or renamed (permutation). -/
theorem read_write (url : UrlFacts) (e : Exchange) (out : Bytes) (hd : Dom url e) (hw : write e = .ok out) :
    ∃ e', read url out = .ok e' ∧ e'.version = e.version ∧ e'.uri = e.uri ∧
      e'.method = (if e.version = .b3 then [71, 69, 84] else e.method) ∧ e'.status = e.status ∧
      e'.sigHeader = e.sigHeader ∧ e'.payload = e.payload ∧
      e'.respHeaders.Perm (e.respHeaders.map normField) ∧
      (if e.version = .b3 then e'.reqHeaders = [] else e'.reqHeaders.Perm (e.reqHeaders.map normField)) :=
  Sxg.read_write url e out hd hw

/-- T2: a write fails **iff** the header block cannot be encoded (names colliding after case folding) or a
    length does not fit: b1: signature or header block ≥ 2^24; b2/b3: URL ≥ 2^16, signature > 16384,
    header block > 524288. In particular a 65536-byte URL is refused (F1) instead of being written with
    length bytes 00 00. -/
theorem write_fails_iff (e : Exchange) : (∃ err, write e = .error err) ↔
    ((∃ err, encodeExchangeHeaders e = .error err) ∨ ∃ hdr, encodeExchangeHeaders e = .ok hdr ∧
      (if e.version = .b1 then (2 ^ 24 ≤ e.sigHeader.length ∨ 2 ^ 24 ≤ hdr.length)
       else (2 ^ 16 ≤ e.uri.length ∨ 16384 < e.sigHeader.length ∨ 524288 < hdr.length))) :=
  Sxg.write_fails_iff e

/-- T3: the verdict (and the payload handed back) is the same before and after a write/read round trip, at
    every time: `verify` depends on the exchange only through what survives the round trip. Requires the
    header map to be as Go's `Header.Add/Set` builds it (canonical, distinct names). This theorem was false
    before fix F13 (two-valued Cache-Control: public / no-store). -/
theorem verify_invariant (env : Env) (e : Exchange) (out : Bytes) (t : GoTime.T) (hd : Dom env.url e) (hw : write e = .ok out)
    (hc1 : CanonKeys e.respHeaders)
    (hb3 : e.version = .b3 → e.reqHeaders.any (fun kv => isStatefulRequestHeader kv.1) = false) :
    ∃ e', read env.url out = .ok e' ∧ verify env e' t = verify env e t :=
  verify_read_write env e out t hd hw hc1 hb3

/-- T4: an exchange signed by the library (MI-encode the payload with any record size 1..16384, add the
    Signature header for the signature bytes `sig` the signing algorithm returned) verifies at every `t`
    accepted by the window test and returns the original un-encoded payload — given that `sig` verifies under
    the leaf certificate's key over the message (hypothesis `hsv`: that is what "the signing algorithm is
    correct" means), that the certificate is what cert-url serves, same-origin URLs and the acceptance policy.
    Since fix F14 no assumption on pre-existing digest headers is needed. -/
theorem honest_verifies (env : Env) (hlen : ∀ x, (env.H x).length = 32)
    (e0 e1 e2 : Exchange) (rs : Nat) (hrs : 1 ≤ rs) (hrs2 : rs ≤ 16384)
    (sig validityUrl certUrl certBytes : Bytes) (main : CertChain.AugCert) (rest : List CertChain.AugCert)
    (date expires : Int) (t : GoTime.T) (msg : Bytes)
    (hmi : miEncodePayload env.H e0 rs = some e1)
    (hmsg : signedMessage e1 (some (env.H main.cert)) validityUrl date expires = some msg)
    (hsign : addSignatureHeader e1 sig validityUrl certUrl (env.H main.cert) date expires = some e2)
    (hfetch : env.fetch certUrl = some certBytes) (hchain : CertChain.read env.parseOk certBytes = some (main :: rest))
    (hkey : env.keyOk main.cert = true) (hsv : env.sigVerify main.cert msg sig = true)
    (hurl : ∃ vu ru, env.url validityUrl = some vu ∧ env.url e0.uri = some ru ∧ sameOrigin vu ru = true)
    (htime : timestampsOk
        { label := kLabel, sig := sig, integrity := e0.version.mice.integrityIdentifier, certUrl := certUrl,
          certSha256 := env.H main.cert, validityUrl := validityUrl, date := date, expires := expires } t = true)
    (hint : -(2:Int)^63 ≤ date ∧ date < (2:Int)^63 ∧ -(2:Int)^63 ≤ expires ∧ expires < (2:Int)^63)
    (hpolicy : headersOk e1 = true ∧ ((e0.version = .b1 ∨ e0.version = .b2) → (e0.method = mGET ∨ e0.method = mHEAD)) ∧
       (e0.version = .b3 → isCacheable env e1 = true ∧ joined e1.respHeaders hContentType ≠ [])) :
    verify env e2 t = some e0.payload :=
  honest_verifies_f14 env hlen e0 e1 e2 rs hrs hrs2 sig validityUrl certUrl certBytes main rest date expires t msg
    hmi hmsg hsign hfetch hchain hkey hsv hurl htime hint hpolicy

/-- T5: fixed-width big-endian fields: `EncodeBytesUint n size` succeeds iff `0 ≤ n < 2^(8·size)` (size < 7)
    and `Decode3BytesUint` inverts the 3-byte form. -/
theorem encodeBytesUint_ok_iff (n : Int) (size : Nat) (hs : size < 7) :
    (BigEndian.encodeBytesUint n size).isSome = true ↔ (0 ≤ n ∧ n < (2 : Int) ^ (size * 8)) := by
  unfold BigEndian.encodeBytesUint
  by_cases h0 : n < 0
  · simp [h0]; intro h; omega
  · by_cases h1 : size < 7 ∧ (2 : Int) ^ (size * 8) ≤ n
    · simp [h0, h1]
    · simp only [h0, h1, if_false, Option.isSome_some, true_iff]
      constructor
      · omega
      · by_cases h2 : (2 : Int) ^ (size * 8) ≤ n
        · exact absurd ⟨hs, h2⟩ h1
        · omega

theorem decode3_encode3 (n : Nat) (h : n < 2 ^ 24) :
    ∃ a b c, BigEndian.encodeBytesUint n 3 = some [a, b, c] ∧ BigEndian.decode3BytesUint a b c = n := by
  have hn : ¬ ((n : Int) < 0) := by omega
  have h2 : ¬ (3 < 7 ∧ (2 : Int) ^ (3 * 8) ≤ (n : Int)) := by
    intro hh; have := hh.2
    have e : (2 : Int) ^ (3 * 8) = 16777216 := by decide
    rw [e] at this; omega
  refine ⟨UInt8.ofNat (n / 256 / 256 % 256), UInt8.ofNat (n / 256 % 256), UInt8.ofNat (n % 256), ?_, ?_⟩
  · simp only [BigEndian.encodeBytesUint, hn, h2, if_false, Int.toNat_natCast]
    simp [beBytes]
  · simp only [BigEndian.decode3BytesUint]
    rw [toNat_ofNat_lt (Nat.mod_lt _ (by decide)), toNat_ofNat_lt (Nat.mod_lt _ (by decide)),
      toNat_ofNat_lt (Nat.mod_lt _ (by decide))]
    omega

/-! non-vacuity / regression: F1 witness -/
example : BigEndian.encodeBytesUint 65536 2 = none := by decide
example : BigEndian.encodeBytesUint 65535 2 = some [255, 255] := by decide

end WebPkg.C02
