import WebPkg.Proofs.Variants
import WebPkg.Proofs.BundleWF
import WebPkg.Proofs.BundleRoundTrip
/-
  C03 — Web bundle write → read round trip preserves every exchange.
  This file currently holds the Variants (b1) ordering laws and the writer-side accounting; the full
  `read (write b) = norm b` theorem is stated in DESIGN and is being proved (Proofs/BundleRoundTrip.lean).
-/
namespace WebPkg.C03
open WebPkg.Bundle

/-- T1: row-major order: the index of a variant key is the mixed-radix number of its per-axis positions,
    first axis most significant -/
theorem index_is_row_major (v : List (List Bytes)) (vk : List Bytes) (i : Nat) (h : indexInPossibleKeys v vk = some i) :
    KeyIn v vk ∧ i = rowMajor v (digitsOf v vk) := indexInPossibleKeys_rowMajor v vk i h

/-- T2: `possibleKeyAt` and `indexInPossibleKeys` are mutually inverse on the `numberOfPossibleKeys` range -/
theorem possibleKeyAt_index (v : List (List Bytes)) (hv : Valid v) (vk : List Bytes) (i : Nat)
    (h : indexInPossibleKeys v vk = some i) : possibleKeyAt v i = some vk := possibleKeyAt_indexInPossibleKeys v hv vk i h

theorem index_possibleKeyAt (v : List (List Bytes)) (hv : Valid v) (i : Nat) (hi : i < keyCount v) :
    ∃ vk, possibleKeyAt v i = some vk ∧ indexInPossibleKeys v vk = some i := indexInPossibleKeys_possibleKeyAt v hv i hi

theorem numberOfPossibleKeys_is_product (v : List (List Bytes)) (n : Nat) (h : numberOfPossibleKeys v 1 = some n) :
    n = keyCount v ∧ n ≤ 10000 ∧ ∀ vals ∈ v, 2 ≤ vals.length := numberOfPossibleKeys_eq v n h

/-- T3: two different keys never share an index slot (overlapping coverage is detected) -/
theorem index_injective (v : List (List Bytes)) (hv : Valid v) (a b : List Bytes) (i : Nat)
    (ha : indexInPossibleKeys v a = some i) (hb : indexInPossibleKeys v b = some i) : a = b :=
  indexInPossibleKeys_inj v hv a b i ha hb

/-- T4: offsets recorded for the exchanges are the running positions in the responses buffer: nothing is
    dropped, duplicated or attributed to another URL at write time -/
theorem offsets_accounting (es : List Exch) (n : Nat) (rs0 : List Bytes) (acc acc' : List IndexEntry) (buf' : Bytes)
    (h : addExchanges es (Cbor.encodeHead 4 n ++ rs0.flatten) acc = .ok (buf', acc'))
    (hacc : acc.map (fun e => (e.offset, e.length)) = locs (Cbor.encodeHead 4 n).length rs0) :
    ∃ rs new, rs.length = es.length ∧ buf' = Cbor.encodeHead 4 n ++ (rs0 ++ rs).flatten ∧ acc' = acc ++ new ∧
      new.map (·.url) = es.map (·.url) ∧
      acc'.map (fun e => (e.offset, e.length)) = locs (Cbor.encodeHead 4 n).length (rs0 ++ rs) := by
  obtain ⟨rs, new, h1, _, _, h4, h5, _, h7, _, _, h10⟩ := addExchanges_spec es n rs0 acc acc' buf' h hacc
  exact ⟨rs, new, h1, h4, h5, h7, h10⟩


/-- T (write → read round trip, both versions, optional primary / manifest / signatures sections, one
    representation per URL): reading back what the writer produced yields the same version, primary URL,
    manifest URL and signatures section, and exactly one exchange per written exchange (a permutation `σ`
    of the input: the index is a CBOR map sorted by URL), each with the same URL, status and body and the
    header fields with names case-folded and repeated values comma-joined. `RDomG` lists what the reader
    checks and the writer does not (URL shape, 3-digit status, ASCII headers, parseable certificates).
    `out.length < 2^63`: a Go slice length; a 2^63-byte body is refused by the CBOR decoder. -/
theorem read_write (url : BUrlFacts) (parseOk : Bytes → Bool) (b : Bundle) (out : Bytes)
    (hd : RDomG url parseOk b) (hw : write b = .ok (.ok out)) (hlen : out.length < 2 ^ 63) :
    ∃ b', read url parseOk out = .ok b' ∧ b'.version = b.version ∧ b'.primaryURL = b.primaryURL ∧
      b'.manifestURL = b.manifestURL ∧ b'.signatures = b.signatures ∧
      ∃ σ : List Exch, σ.Perm b.exchanges ∧ b'.exchanges.length = σ.length ∧
        b'.exchanges.map (·.url) = σ.map (·.url) ∧
        ∀ i (hi : i < σ.length), ∃ e', b'.exchanges[i]? = some e' ∧ e'.url = σ[i].url ∧
          e'.resp.status = σ[i].resp.status ∧ e'.resp.body = σ[i].resp.body ∧
          e'.resp.headers.Perm (σ[i].resp.headers.map
            fun kv => (Http.canonicalKey (Http.lowerAscii kv.1), [Http.joinComma kv.2])) :=
  Bundle.read_write url parseOk b out hd hw hlen

/-- the b2 special case needs no distinctness hypothesis (the writer refuses duplicate URLs) -/
theorem read_write_b2 (url : BUrlFacts) (parseOk : Bytes → Bool) (b : Bundle) (out : Bytes) (hv : b.version = .b2)
    (hd : RDom url b) (hw : write b = .ok (.ok out)) (hlen : out.length < 2 ^ 63) :
    ∃ b', read url parseOk out = .ok b' ∧ b'.version = .b2 ∧ b'.primaryURL = b.primaryURL ∧ b'.signatures = none ∧
      b'.exchanges.length = b.exchanges.length := by
  obtain ⟨b', h1, h2, h3, _, _, h6, σ, hσ, hl, _⟩ := Bundle.read_write_b2 url parseOk b out hv hd hw hlen
  exact ⟨b', h1, h2, h3, h6, by rw [hl, hσ.length_eq]⟩

end WebPkg.C03
