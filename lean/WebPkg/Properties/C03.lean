import WebPkg.Proofs.Variants
import WebPkg.Proofs.BundleWF
/-
  C03 — Web bundle write → read round trip preserves every exchange.
  This file currently holds the Variants (b1) ordering laws and the writer-side accounting; the full
  `read (write b) = norm b` theorem is stated in DESIGN and is being proved (Proofs/BundleRoundTrip.lean).
-/
namespace WebPkg.C03
open WebPkg.Bundle

/-- T1: row-major order: the index of a variant key is the mixed-radix number of its per-axis positions,
    first axis most significant -/
theorem index_is_row_major (v : List (List Bytes)) (vk : List Bytes) (i : Nat) (h : indexInPossibleKeys v vk = some i) :
    KeyIn v vk ∧ i = rowMajor v (digitsOf v vk) := indexInPossibleKeys_rowMajor v vk i h

/-- T2: `possibleKeyAt` and `indexInPossibleKeys` are mutually inverse on the `numberOfPossibleKeys` range -/
theorem possibleKeyAt_index (v : List (List Bytes)) (hv : Valid v) (vk : List Bytes) (i : Nat)
    (h : indexInPossibleKeys v vk = some i) : possibleKeyAt v i = some vk := possibleKeyAt_indexInPossibleKeys v hv vk i h

theorem index_possibleKeyAt (v : List (List Bytes)) (hv : Valid v) (i : Nat) (hi : i < keyCount v) :
    ∃ vk, possibleKeyAt v i = some vk ∧ indexInPossibleKeys v vk = some i := indexInPossibleKeys_possibleKeyAt v hv i hi

theorem numberOfPossibleKeys_is_product (v : List (List Bytes)) (n : Nat) (h : numberOfPossibleKeys v 1 = some n) :
    n = keyCount v ∧ n ≤ 10000 ∧ ∀ vals ∈ v, 2 ≤ vals.length := numberOfPossibleKeys_eq v n h

/-- T3: two different keys never share an index slot (overlapping coverage is detected) -/
theorem index_injective (v : List (List Bytes)) (hv : Valid v) (a b : List Bytes) (i : Nat)
    (ha : indexInPossibleKeys v a = some i) (hb : indexInPossibleKeys v b = some i) : a = b :=
  indexInPossibleKeys_inj v hv a b i ha hb

/-- T4: offsets recorded for the exchanges are the running positions in the responses buffer: nothing is
    dropped, duplicated or attributed to another URL at write time -/
theorem offsets_accounting (es : List Exch) (n : Nat) (rs0 : List Bytes) (acc acc' : List IndexEntry) (buf' : Bytes)
    (h : addExchanges es (Cbor.encodeHead 4 n ++ rs0.flatten) acc = .ok (buf', acc'))
    (hacc : acc.map (fun e => (e.offset, e.length)) = locs (Cbor.encodeHead 4 n).length rs0) :
    ∃ rs new, rs.length = es.length ∧ buf' = Cbor.encodeHead 4 n ++ (rs0 ++ rs).flatten ∧ acc' = acc ++ new ∧
      new.map (·.url) = es.map (·.url) ∧
      acc'.map (fun e => (e.offset, e.length)) = locs (Cbor.encodeHead 4 n).length (rs0 ++ rs) := by
  obtain ⟨rs, new, h1, _, _, h4, h5, _, h7, _, _, h10⟩ := addExchanges_spec es n rs0 acc acc' buf' h hacc
  exact ⟨rs, new, h1, h4, h5, h7, h10⟩

end WebPkg.C03
