import WebPkg.Proofs.Variants
import WebPkg.Proofs.BundleWF
import WebPkg.Proofs.BundleRoundTrip
import WebPkg.Proofs.BundleFixpoint
import WebPkg.Proofs.BundleVariantsRT
/-
  C03 — Web bundle write → read round trip preserves every exchange.
  This file currently holds the Variants (b1) ordering laws and the writer-side accounting; the full
  `read (write b) = norm b` theorem is stated in DESIGN and is being proved (Proofs/BundleRoundTrip.lean).
-/
namespace WebPkg.C03
open WebPkg.Bundle

/-- T1: row-major order: the index of a variant key is the mixed-radix number of its per-axis positions,
    first axis most significant -/
theorem index_is_row_major (v : List (List Bytes)) (vk : List Bytes) (i : Nat) (h : indexInPossibleKeys v vk = some i) :
    KeyIn v vk ∧ i = rowMajor v (digitsOf v vk) := indexInPossibleKeys_rowMajor v vk i h

/-- T2: `possibleKeyAt` and `indexInPossibleKeys` are mutually inverse on the `numberOfPossibleKeys` range -/
theorem possibleKeyAt_index (v : List (List Bytes)) (hv : Valid v) (vk : List Bytes) (i : Nat)
    (h : indexInPossibleKeys v vk = some i) : possibleKeyAt v i = some vk := possibleKeyAt_indexInPossibleKeys v hv vk i h

theorem index_possibleKeyAt (v : List (List Bytes)) (hv : Valid v) (i : Nat) (hi : i < keyCount v) :
    ∃ vk, possibleKeyAt v i = some vk ∧ indexInPossibleKeys v vk = some i := indexInPossibleKeys_possibleKeyAt v hv i hi

theorem numberOfPossibleKeys_is_product (v : List (List Bytes)) (n : Nat) (h : numberOfPossibleKeys v 1 = some n) :
    n = keyCount v ∧ n ≤ 10000 ∧ ∀ vals ∈ v, 2 ≤ vals.length := numberOfPossibleKeys_eq v n h

/-- T3: two different keys never share an index slot (overlapping coverage is detected) -/
theorem index_injective (v : List (List Bytes)) (hv : Valid v) (a b : List Bytes) (i : Nat)
    (ha : indexInPossibleKeys v a = some i) (hb : indexInPossibleKeys v b = some i) : a = b :=
  indexInPossibleKeys_inj v hv a b i ha hb

/-- T4: offsets recorded for the exchanges are the running positions in the responses buffer: nothing is
    dropped, duplicated or attributed to another URL at write time -/
theorem offsets_accounting (es : List Exch) (n : Nat) (rs0 : List Bytes) (acc acc' : List IndexEntry) (buf' : Bytes)
    (h : addExchanges es (Cbor.encodeHead 4 n ++ rs0.flatten) acc = .ok (buf', acc'))
    (hacc : acc.map (fun e => (e.offset, e.length)) = locs (Cbor.encodeHead 4 n).length rs0) :
    ∃ rs new, rs.length = es.length ∧ buf' = Cbor.encodeHead 4 n ++ (rs0 ++ rs).flatten ∧ acc' = acc ++ new ∧
      new.map (·.url) = es.map (·.url) ∧
      acc'.map (fun e => (e.offset, e.length)) = locs (Cbor.encodeHead 4 n).length (rs0 ++ rs) := by
  obtain ⟨rs, new, h1, _, _, h4, h5, _, h7, _, _, h10⟩ := addExchanges_spec es n rs0 acc acc' buf' h hacc
  exact ⟨rs, new, h1, h4, h5, h7, h10⟩


/-- T (write → read round trip, both versions, optional primary / manifest / signatures sections, one
    representation per URL): reading back what the writer produced yields the same version, primary URL,
    manifest URL and signatures section, and exactly one exchange per written exchange (a permutation `σ`
    of the input: the index is a CBOR map sorted by URL), each with the same URL, status and body and the
    header fields with names case-folded and repeated values comma-joined. `RDomG` lists what the reader
    checks and the writer does not (URL shape, 3-digit status, ASCII headers, parseable certificates).
    `out.length < 2^63`: a Go slice length; a 2^63-byte body is refused by the CBOR decoder. -/
theorem read_write (url : BUrlFacts) (parseOk : Bytes → Bool) (b : Bundle) (out : Bytes)
    (hd : RDomG url parseOk b) (hw : write b = .ok (.ok out)) (hlen : out.length < 2 ^ 63) :
    ∃ b', read url parseOk out = .ok b' ∧ b'.version = b.version ∧ b'.primaryURL = b.primaryURL ∧
      b'.manifestURL = b.manifestURL ∧ b'.signatures = b.signatures ∧
      ∃ σ : List Exch, σ.Perm b.exchanges ∧ b'.exchanges.length = σ.length ∧
        b'.exchanges.map (·.url) = σ.map (·.url) ∧
        ∀ i (hi : i < σ.length), ∃ e', b'.exchanges[i]? = some e' ∧ e'.url = σ[i].url ∧
          e'.resp.status = σ[i].resp.status ∧ e'.resp.body = σ[i].resp.body ∧
          e'.resp.headers.Perm (σ[i].resp.headers.map
            fun kv => (Http.canonicalKey (Http.lowerAscii kv.1), [Http.joinComma kv.2])) :=
  Bundle.read_write url parseOk b out hd hw hlen

/-- the b2 special case needs no distinctness hypothesis (the writer refuses duplicate URLs) -/
theorem read_write_b2 (url : BUrlFacts) (parseOk : Bytes → Bool) (b : Bundle) (out : Bytes) (hv : b.version = .b2)
    (hd : RDom url b) (hw : write b = .ok (.ok out)) (hlen : out.length < 2 ^ 63) :
    ∃ b', read url parseOk out = .ok b' ∧ b'.version = .b2 ∧ b'.primaryURL = b.primaryURL ∧ b'.signatures = none ∧
      b'.exchanges.length = b.exchanges.length := by
  obtain ⟨b', h1, h2, h3, _, _, h6, σ, hσ, hl, _⟩ := Bundle.read_write_b2 url parseOk b out hv hd hw hlen
  exact ⟨b', h1, h2, h3, h6, by rw [hl, hσ.length_eq]⟩


/-- T (read-back form): what the reader returns for a writer output is `Normal`: exchanges strictly ascending in the
    index-map order of their URLs, header names canonical, one (comma-joined) value per field, fields in map order. -/
theorem read_normal (url : BUrlFacts) (parseOk : Bytes → Bool) (b : Bundle) (out : Bytes)
    (hd : RDomG url parseOk b) (hw : write b = .ok (.ok out)) (hlen : out.length < 2 ^ 63) :
    ∃ b', read url parseOk out = .ok b' ∧ Normal b' := Bundle.read_normal url parseOk b out hd hw hlen

/-- T (identity on read-back forms): exact equality, no permutation -/
theorem read_write_normal (url : BUrlFacts) (parseOk : Bytes → Bool) (b : Bundle) (out : Bytes)
    (hn : Normal b) (hd : RDomG url parseOk b) (hw : write b = .ok (.ok out)) (hlen : out.length < 2 ^ 63) :
    read url parseOk out = .ok b := Bundle.read_write_normal url parseOk b out hn hd hw hlen

/-- T (fixpoint): write, read, write again: the second serialization is a fixpoint -- reading it gives back the same
    bundle, the writer accepts what was read, and every further write/read cycle reproduces the same bytes.
    (One representation per URL, as in `read_write`; the reader flattens multi-key Variant-Key entries by design.) -/
theorem write_read_fixpoint (url : BUrlFacts) (parseOk : Bytes → Bool) (b : Bundle) (out₁ : Bytes)
    (hd : RDomG url parseOk b) (hw₁ : write b = .ok (.ok out₁)) (hlen₁ : out₁.length < 2 ^ 63) :
    ∃ b₁ out₂, read url parseOk out₁ = .ok b₁ ∧ Normal b₁ ∧ RDomG url parseOk b₁ ∧
      write b₁ = .ok (.ok out₂) ∧
      (out₂.length < 2 ^ 63 →
        read url parseOk out₂ = .ok b₁ ∧
        ∀ b₂, read url parseOk out₂ = .ok b₂ → write b₂ = .ok (.ok out₂)) :=
  Bundle.read_write_fixpoint url parseOk b out₁ hd hw₁ hlen₁


/-- T (b1 variant sets): a b1 bundle with several representations per URL (each carrying one Variant-Key) reads back as
    groups, one per URL in index order, and inside a group the i-th representation is the one whose Variant-Key is the i-th
    possible key of the Variants value in row-major order (`VariantGroup.rowMajor`); same version, primary URL, manifest URL,
    signatures; every exchange comes back with the same URL, status, body and normalised headers (`bfp_Back`).
    `VDom`: what the reader checks and the writer does not, plus single-key Variant-Key values (multi-key entries are
    flattened into repeated exchanges by the reader, by design). -/
theorem read_write_b1_variants (url : BUrlFacts) (parseOk : Bytes → Bool) (b : Bundle) (out : Bytes)
    (hv : b.version = .b1) (hd : VDom url parseOk b) (hw : write b = .ok (.ok out)) (hlen : out.length < 2 ^ 63) :
    ∃ (b' : Bundle) (groups : List (List Exch)), read url parseOk out = .ok b' ∧ b'.version = .b1 ∧
      b'.primaryURL = b.primaryURL ∧ b'.manifestURL = b.manifestURL ∧ b'.signatures = b.signatures ∧
      groups.flatten.Perm b.exchanges ∧
      Forall₂ bfp_Back groups.flatten b'.exchanges ∧
      groups.Pairwise (fun g1 g2 => ∀ e1 ∈ g1, ∀ e2 ∈ g2, blt (tstr e1.url) (tstr e2.url) = true) ∧
      ∀ g ∈ groups, VariantGroup g := Bundle.read_write_b1_variants url parseOk b out hv hd hw hlen

/-- T (refusal at write time): overlapping coverage -- two Variant-Key claims of one URL naming the same key -- is not written -/
theorem write_refuses_overlapping_variants (b : Bundle) (hv : b.version = .b1) (u : Bytes)
    (hl : 1 < (b.exchanges.filter (fun e => e.url == u)).length)
    (h : ¬ (exClaims (b.exchanges.filter (fun e => e.url == u))).Nodup) (out : Bytes) : write b ≠ .ok (.ok out) :=
  write_b1_refuses_overlap b hv u hl h out

/-- T (refusal at write time): incomplete coverage -- a possible key claimed by no representation -- is not written -/
theorem write_refuses_incomplete_variants (b : Bundle) (hv : b.version = .b1) (u : Bytes)
    (hl : 1 < (b.exchanges.filter (fun e => e.url == u)).length)
    (e0 : Exch) (he0 : e0 ∈ b.exchanges.filter (fun e => e.url == u)) (variants : List (List Bytes)) (num i : Nat)
    (hp : parseListOfStringLists (exVariants e0) = some variants) (hn : numberOfPossibleKeys variants 1 = some num)
    (hi : i < num)
    (h : ∀ vk ∈ exClaims (b.exchanges.filter (fun e => e.url == u)), indexInPossibleKeys variants vk ≠ some i)
    (out : Bytes) : write b ≠ .ok (.ok out) :=
  write_b1_refuses_incomplete b hv u hl e0 he0 variants num i hp hn hi h out

end WebPkg.C03
