import WebPkg.Proofs.BundleWF
import WebPkg.Proofs.CountingWriter
/-
  C04 — Bundle writer output is a well-formed, canonical, self-consistent bundle.
  Model: Model/Bundle.lean writer (encoder.go, countingwriter.go after fix F11).
  Spec: Spec/Bundle.lean `WellFormed` (independent of the writer: magic/version, section table that tiles the
  file with responses last, index entries each delimiting exactly one response, canonical maps, trailing length).
-/
namespace WebPkg.C04
open WebPkg.Bundle WebPkg.Spec.Bundle WebPkg.Cbor

/-- T1: every byte sequence the writer emits without error is a well-formed bundle of the requested version
    (b1 incl. Variants index entries, b2), for any number of exchanges and optional sections.
    (`out.length < 2^64` always holds for a Go byte slice; the 8-byte trailing length needs it.) -/
theorem write_wellFormed (b : Bundle) (out : Bytes) (h : write b = .ok (.ok out)) (hlen : out.length < 2 ^ 64) :
    WellFormed b.version out := Bundle.write_wellFormed b out h hlen

/-- T2: the trailing 8-byte length equals the total size: the output is `body ‖ bstr(be64(|body| + 9))` and the
    footer is 9 bytes. (The byte count Go's `WriteTo` returns is the `CountingWriter` total, i.e. `out.length`.) -/
theorem write_count (b : Bundle) (out : Bytes) (h : write b = .ok (.ok out)) :
    ∃ body, out = body ++ encodeBytes (beBytes 8 (body.length + 9)) ∧ out.length = body.length + 9 :=
  Bundle.write_count b out h

/-- T3: each response is `[bstr canonical-header-map, bstr body]` with a ":status" entry -/
theorem response_wellFormed (r : Resp) (x : Bytes) (h : encodeResponse r = .ok x) : IsResponse x :=
  Bundle.encodeResponse_isResponse r x h

/-- T4: b1 Variants: when a URL has several representations the index lists exactly one location per
    possible key of the Variants value, each taken from the given exchanges -/
theorem variants_index_complete (es out : List IndexEntry) (h : entriesInPossibleKeyOrder es = some out) :
    out ≠ [] ∧ (∀ e ∈ out, e ∈ es) ∧ ∃ variants num,
      (∃ first, es.head? = some first ∧ parseListOfStringLists first.variants = some variants) ∧
      numberOfPossibleKeys variants 1 = some num ∧ out.length = num :=
  Bundle.entriesInPossibleKeyOrder_spec es out h


/-- `CountingWriter` (countingwriter.go): for every destination kind (implementing io.ReaderFrom, not implementing it,
    failing after any number of bytes with a short write or with n = 0) and every sequence of `Write` / `ReadFrom`
    calls -- the source delivered in chunks of any size --, `Written` equals the number of bytes the destination
    accepted. -/
theorem countingWriter_written_eq_received (k : CW.DestKind) (room : Nat) (ops : List CW.Op) :
    (ops.foldl CW.step (CW.init k room)).written = (ops.foldl CW.step (CW.init k room)).received :=
  CW.written_eq_received k room ops

/-- and without a fault `ReadFrom` transfers the whole source, whatever the chunking -/
theorem countingWriter_readFrom_complete (s : CW.State) (total chunk : Nat) (hk : s.kind ≠ .readerFrom)
    (hf : ∀ b, s.kind ≠ .failing b) (hc : 0 < chunk) :
    (CW.readFrom s total chunk).1 = total ∧ (CW.readFrom s total chunk).2.1 = false :=
  CW.readFrom_complete s total chunk hk hf hc

end WebPkg.C04
