import WebPkg.Proofs.BundleSafe
/-
  C05 — Bundle reader returns only what is in the file, from in-bounds locations.
  Model: Model/Bundle.lean reader (decoder.go after fixes F5, F6, F7) with Go's uint64 wrapping additions
  and slice-bounds panics made explicit.  `bs.length < 2^64` always holds for a Go byte slice.
-/
namespace WebPkg.C05
open WebPkg.Bundle

/-- T1: `bundle.Read` never panics, on any input: every slice expression is in bounds and no offset
    computation wraps (this is what fix F5 — `sectionsFit` and the overflow-safe index test — buys). -/
theorem read_no_panic (url : BUrlFacts) (parseOk : Bytes → Bool) (bs : Bytes) (hlen : bs.length < 2 ^ 64) :
    read url parseOk bs ≠ .panic := Bundle.read_no_panic url parseOk bs hlen

/-- T2: whatever is returned comes from in-bounds locations of the input: all index entries lie inside one
    region `[respStart, respStart+respLen) ⊆ [0, |bs|)` (the responses section) without wrap-around, there is
    exactly one returned exchange per index entry, in order, with the entry's URL, and its response is what
    `loadResponse` decodes from that entry's byte range. -/
theorem read_in_bounds (url : BUrlFacts) (parseOk : Bytes → Bool) (bs : Bytes) (hlen : bs.length < 2 ^ 64) (b : Bundle)
    (h : read url parseOk bs = .ok b) :
    ∃ m, loadMetadata url parseOk bs = .ok m ∧
      (∃ respStart respLen, respStart + respLen ≤ bs.length ∧
        ∀ r ∈ m.requests, respStart ≤ r.offset ∧ r.offset + r.length ≤ respStart + respLen) ∧
      b.exchanges.length = m.requests.length ∧
      ∀ i (hi : i < m.requests.length), ∃ e, b.exchanges[i]? = some e ∧ e.url = (m.requests[i]).url ∧
        loadResponse (m.requests[i]) bs = .ok e.resp :=
  Bundle.read_in_bounds url parseOk bs hlen b h

/-- T2': a response depends on nothing outside its delimited byte range ... -/
theorem response_depends_on_range (req : ReqEntry) (bs : Bytes) (h : req.offset + req.length ≤ bs.length)
    (hlen : bs.length < 2 ^ 64) :
    loadResponse req bs = loadResponse { url := req.url, offset := 0, length := req.length } ((bs.drop req.offset).take req.length) :=
  Bundle.loadResponse_in_bounds req bs h hlen

/-- ... and that range is exactly one `0x82, bstr headers, bstr body` item whose body is returned verbatim
    (no fabricated content). -/
theorem response_shape (req : ReqEntry) (bs : Bytes) (r : Resp) (hok : loadResponse req bs = .ok r) :
    ∃ hdrItem hdrBytes bodyItem, Spec.Cbor.IsString 2 hdrItem hdrBytes ∧ Spec.Cbor.IsString 2 bodyItem r.body ∧
      (bs.drop req.offset).take req.length = 0x82 :: (hdrItem ++ bodyItem) :=
  Bundle.loadResponse_ok_shape req bs r hok

/-- T3: index entries are accepted only inside the responses section as located by the section table -/
theorem index_entries_in_responses (url : BUrlFacts) (ver : BVer) (contents bs : Bytes) (start : Nat) (sos : List SectionOffset)
    (reqs : List ReqEntry) (hfit : sectionsFit sos (bs.length - start) = true) (hs : start ≤ bs.length)
    (hlen : bs.length < 2 ^ 64) (h : parseIndex url ver contents start sos = some reqs) :
    ∃ so rel, findSection sos nResponses 0 = some (so, rel) ∧ start + rel + so.length ≤ bs.length ∧
      ∀ r ∈ reqs, start + rel ≤ r.offset ∧ r.offset + r.length ≤ start + rel + so.length :=
  Bundle.parseIndex_in_bounds hfit hs hlen h

/-- T4: unknown sections are stepped over without losing the place (fix F6) -/
theorem unknown_section_skipped (url : BUrlFacts) (parseOk : Bytes → Bool) (ver : BVer) (bs : Bytes) (start : Nat)
    (sos rest : List SectionOffset) (so : SectionOffset) (offset : Nat) (m : Meta) (hk : knownSection so.name = false) :
    sectionLoop url parseOk ver bs start sos (so :: rest) offset m =
      sectionLoop url parseOk ver bs start sos rest (w64 (offset + so.length)) m :=
  Bundle.sectionLoop_skips_unknown url parseOk ver bs start sos so rest offset m hk

/-- T5: a section table whose lengths do not fit in the file (or overflow 64 bits when summed) is rejected:
    `sectionsFit` bounds the true sum -/
theorem sections_fit_sum (sos : List SectionOffset) (rem : Nat) (h : sectionsFit sos rem = true) :
    (sos.map (·.length)).sum ≤ rem := Bundle.sectionsFit_sum h

end WebPkg.C05
