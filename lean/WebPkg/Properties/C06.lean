import WebPkg.Proofs.BSig
import WebPkg.Proofs.BSigMulti
import WebPkg.Proofs.BSigRoundTrip
/-
  C06 — Bundle signatures: covered exchanges verify, any alteration is detected.
  Model: Model/BSig.lean (bundle/signature/{signer,verifier}.go, AddPayloadIntegrity, the addSignature loop of
  cmd/sign-bundle). ECDSA, SHA-256, x509 hostname coverage and URL parsing are parameters.
-/
namespace WebPkg.C06
open WebPkg.BSig WebPkg.Bundle WebPkg.CertChain

/-- T1 (invariant over any sequence of signers): after signers with chains `signers.map certs` processed a
    bundle one after another, the authority list is the concatenation of the chains and the i-th vouched
    subset's authority index is the position of its own signer's leaf certificate; earlier subsets untouched. -/
theorem authority_invariant (H : Bytes → Bytes) (rs : Nat) (b b' : Bundle) (signers : List Signer)
    (h0 : b.signatures = none) (h : signAll H rs b signers = some b') :
    SignedBy (sigsOf b') (signers.map (·.certs)) := bs_signAll_signedBy H rs signers b b' h0 h

theorem authority_points_to_own_leaf (s : Sigs) (chains : List (List AugCert)) (h : SignedBy s chains) :
    WellIndexed s ∧ ∀ i (hi : i < s.subsets.length), s.authorities[(s.subsets[i]).authority]? = chains[i]?.bind List.head? :=
  ⟨bs_signedBy_wellIndexed h, bs_signedBy_leaf h⟩

/-- T2 (honest verification): after the first signer, at any time inside the window, every exchange whose URL
    the certificate covers verifies and yields the original (pre-integrity-encoding) body under the signer's
    leaf certificate, and uncovered exchanges are reported unsigned. -/
theorem honest_verifies (env : VEnv) (hlen : ∀ x, (env.H x).length = 32) (canSign : Bytes → Bool) (rs : Nat)
    (hrs : 1 ≤ rs) (hrs2 : rs ≤ 16384) (b b' : Bundle) (certs : List AugCert) (vurl : Bytes) (date expires : Int)
    (sig msg : Bytes) (t : GoTime.T)
    (hfirst : b.signatures = none)
    (hadd : addSignature env.H canSign rs b certs vurl date expires sig = some (b', msg))
    (hkey : env.keyOk (certs.headD default).cert = true)
    (hsv : env.sigVerify (certs.headD default).cert msg sig = true)
    (hvu : utf8Valid vurl = true) (hvl : vurl.length < 2 ^ 63) (hok : env.urlOk vurl = true)
    (hd : 0 ≤ date ∧ date < 2 ^ 62) (hx : 0 ≤ expires ∧ expires < 2 ^ 62) (hlife : expires - date ≤ 604800)
    (ht1 : GoTime.before t (GoTime.ofUnix date 0) = false) (ht2 : GoTime.after t (GoTime.ofUnix expires 0) = false)
    (hurls : ∀ e ∈ b.exchanges, canSign e.url = true → utf8Valid e.url = true ∧ e.url.length < 2 ^ 63)
    (hn : b.exchanges.length < 2 ^ 64) :
    ∃ (sigs' : Sigs) (ss : SignedSubset) (hne : certs ≠ []),
      b'.signatures = some sigs' ∧
      newVerifier env sigs' t b.version = some [(ss, certs.head hne)] ∧
      b'.exchanges = b.exchanges.map (signedView env.H canSign rs) ∧
      ∀ e ∈ b.exchanges,
        (canSign e.url = true →
          verifyExchange env b.version [(ss, certs.head hne)] (piExch env.H rs e) = .verified e.resp.body (certs.head hne).cert) ∧
        (canSign e.url = false → verifyExchange env b.version [(ss, certs.head hne)] e = .unsigned) := by
  obtain ⟨sigs', ss, hne, h1, h2, _, h4, h5⟩ :=
    bs_honest_verifies env hlen canSign rs hrs hrs2 b b' certs vurl date expires sig msg t hfirst hadd hkey hsv hvu hvl hok hd hx hlife ht1 ht2 hurls hn
  exact ⟨sigs', ss, hne, h1, h2, h4, h5⟩


/-- T2' (any sequence of signers): after `signAll` ran the signers one after the other on a bundle without a signatures
    section, at any time inside every signer's window the verifier accepts the whole section, trusting signer i's subset
    under signer i's leaf certificate; every exchange covered by a signer verifies with the ORIGINAL body under that
    signer's leaf, and exchanges covered by nobody are unsigned. That no URL is covered by two signers is a consequence
    of `signAll` succeeding (the second `AddPayloadIntegrity` would meet the Digest header), exported as the `Pairwise`
    conjunct. `bm_SignerOk`: per-signer hypotheses of `honest_verifies` (usable key, validity URL, 0 ≤ dates < 2^62,
    lifetime ≤ 7 days, t in the window, covered URLs are UTF-8); `hsig`: each signer's signature verifies over the
    message its `addSignature` produced (`signerMsg_is_signed_message`). -/
theorem honest_verifies_all (env : VEnv) (hlen : ∀ x, (env.H x).length = 32) (rs : Nat) (hrs : 1 ≤ rs)
    (hrs2 : rs ≤ 16384) (b b' : Bundle) (signers : List Signer) (t : GoTime.T)
    (hfirst : b.signatures = none) (hall : signAll env.H rs b signers = some b')
    (hs : ∀ s ∈ signers, bm_SignerOk env t b s)
    (hsig : ∀ s ∈ signers, env.sigVerify (bm_leaf s).cert (bm_signerMsg env.H rs b s) s.sig = true)
    (hn : b.exchanges.length < 2 ^ 64) :
    (signers ≠ [] → b'.signatures = some (sigsOf b')) ∧
    b'.version = b.version ∧
    b'.exchanges = b.exchanges.map (bm_view env.H rs signers) ∧
    newVerifier env (sigsOf b') t b.version = some (bm_trusted env.H rs b signers) ∧
    (signers.Pairwise fun s₁ s₂ => ∀ e ∈ b.exchanges, ¬ (s₁.canSign e.url = true ∧ s₂.canSign e.url = true)) ∧
    ∀ e ∈ b.exchanges,
      (∀ s ∈ signers, s.canSign e.url = true →
        verifyExchange env b.version (bm_trusted env.H rs b signers) (piExch env.H rs e) =
          .verified e.resp.body (bm_leaf s).cert) ∧
      ((∀ s ∈ signers, s.canSign e.url = false) →
        verifyExchange env b.version (bm_trusted env.H rs b signers) e = .unsigned) :=
  bm_honest_verifies_all env hlen rs hrs hrs2 b b' signers t hfirst hall hs hsig hn


/-- T2'' (... and this stays true after writing and re-reading the bundle): sign with any sequence of signers, write the
    signed bundle, read it back: the signatures section is unchanged, the verifier trusts the same subsets, and every
    original exchange has a counterpart in the bundle read back (and vice versa) that verifies with the original body
    under its signer's leaf certificate, or is unsigned when no signer covers it. `RDomG` for the signed bundle: what
    the reader checks and the writer does not (C03.read_write). -/
theorem honest_verifies_after_roundtrip (env : VEnv) (hlen : ∀ x, (env.H x).length = 32) (rs : Nat) (hrs : 1 ≤ rs)
    (hrs2 : rs ≤ 16384) (b b' : Bundle) (signers : List Signer) (t : GoTime.T)
    (hfirst : b.signatures = none) (hall : signAll env.H rs b signers = some b')
    (hs : ∀ s ∈ signers, bm_SignerOk env t b s)
    (hsig : ∀ s ∈ signers, env.sigVerify (bm_leaf s).cert (bm_signerMsg env.H rs b s) s.sig = true)
    (hn : b.exchanges.length < 2 ^ 64)
    (url : BUrlFacts) (parseOk : Bytes → Bool) (out : Bytes)
    (hd : RDomG url parseOk b') (hw : write b' = .ok (.ok out)) (hout : out.length < 2 ^ 63) :
    ∃ b'', read url parseOk out = .ok b'' ∧ b''.version = b.version ∧ b''.signatures = b'.signatures ∧
      newVerifier env (sigsOf b'') t b''.version = some (bm_trusted env.H rs b signers) ∧
      (∀ e ∈ b.exchanges, ∃ e'' ∈ b''.exchanges, e''.url = e.url ∧ brs_Verdict env rs b signers b''.version e e'') ∧
      (∀ e'' ∈ b''.exchanges, ∃ e ∈ b.exchanges, e''.url = e.url ∧ brs_Verdict env rs b signers b''.version e e'') :=
  brs_honest_roundtrip env hlen rs hrs hrs2 b b' signers t hfirst hall hs hsig hn url parseOk out hd hw hout

/-- the message in `hsig` is exactly the message each signer's `addSignature` returned while `signAll` ran -/
theorem signerMsg_is_signed_message (H : Bytes → Bytes) (rs : Nat) (b : Bundle) (signers : List Signer)
    (tr : List (Bundle × Bytes)) (h : bm_signAllTrace H rs b signers = some tr) :
    tr.map Prod.snd = signers.map (bm_signerMsg H rs b) := bm_trace_msgs H rs b signers tr h

/-- T3 (soundness): a `verified` verdict means: header hash recomputed from the exchange equals the signed one,
    the integrity identifier matches, and the payload is the MI-decoding of the body under the exchange's
    Digest header ... -/
theorem verify_sound (env : VEnv) (ver : BVer) (vss : List (SignedSubset × AugCert)) (e : Exch) (p a : Bytes)
    (h : verifyExchange env ver vss e = .verified p a) :
    ∃ ss auth rhs rh, (ss, auth) ∈ vss ∧ a = auth.cert ∧ ss.subsetHashes.find? (·.1 == e.url) = some (e.url, rhs) ∧
      rhs.variantsValue = [] ∧ rhs.hashes = [rh] ∧ headerSha256 env.H e.resp = some rh.headerSha256 ∧
      rh.payloadIntegrityHeader = Mice.Enc.draft03.integrityIdentifier ∧ Http.get e.resp.headers hDigest ≠ [] ∧
      Mice.decodeAll env.H .draft03 e.resp.body (Http.get e.resp.headers hDigest) 16384 = (p, .eof) :=
  bs_verifyExchange_sound h

/-- ... and a subset is trusted only after its signature was verified under the certificate its authority index
    selects, auth-sha256 matched that certificate, and the time window (≤ 7 days, date ≤ t ≤ expires) held. -/
theorem subset_checked_before_trusted (env : VEnv) (vs : VouchedSubset) (auths : List AugCert) (t : GoTime.T) (ver : BVer)
    (ss : SignedSubset) (cert : AugCert) (h : verifyVouchedSubset env vs auths t ver = some (ss, cert)) :
    vs.authority < auths.length ∧ auths[vs.authority]? = some cert ∧ env.keyOk cert.cert = true ∧
      env.sigVerify cert.cert (signedMessage vs.signed ver) vs.sig = true ∧
      decodeSignedSubset env.urlOk vs.signed = some ss ∧ ss.authSha256 = env.H cert.cert ∧
      GoTime.sub (GoTime.ofUnix ss.expires 0) (GoTime.ofUnix ss.date 0) ≤ 604800 * 1000000000 ∧
      GoTime.before t (GoTime.ofUnix ss.date 0) = false ∧ GoTime.after t (GoTime.ofUnix ss.expires 0) = false :=
  bs_verifyVouchedSubset_sound h

/-- T4: the signed message determines the signed bytes and the bundle version (context strings differ) -/
theorem signedMessage_injective (s₁ s₂ : Bytes) (v₁ v₂ : BVer) (h : signedMessage s₁ v₁ = signedMessage s₂ v₂) :
    s₁ = s₂ ∧ v₁ = v₂ := bs_signedMessage_inj h

end WebPkg.C06
