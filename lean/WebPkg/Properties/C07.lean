import WebPkg.Proofs.IntegrityBlock
/-
  C07 — Integrity-block signing: verifiable signature, untouched bundle, right ID.
  Model: Model/IntegrityBlock.lean (integrityblock.go, integrityblock-signer.go after fix F8, web-bundle-id.go,
  writeOutput of cmd/sign-bundle). SHA-512, the strategy's Sign and ed25519.Verify are parameters.
-/
namespace WebPkg.C07
open WebPkg.IB

/-- T1: the tool's output is exactly the deterministic-CBOR block [magic, version, [[{ed25519PublicKey: pk}, sig]]]
    followed by the untouched original file bytes; the signature verifies under the recorded key over
    data-to-be-signed = len‖SHA-512(file) ‖ len‖(empty block CBOR) ‖ len‖(attributes CBOR). -/
theorem output_layout (H512 : Bytes → Bytes) (sign : Bytes → Option Bytes) (edVerify : Bytes → Bytes → Bytes → Bool)
    (pk file out : Bytes) (h : signFile H512 sign edVerify pk file = .ok (some out)) :
    ∃ blockBytes sig, out = blockBytes ++ file ∧
      blockCbor { magic := blockMagic, version := versionB1,
                  stack := [{ attrs := [(kEd25519PublicKey, pk)], signature := sig }] } = .ok blockBytes ∧
      Det.deterministic blockBytes = .ok () ∧
      (∃ dts, dataToBeSigned (H512 file) emptyBlockBytes [(kEd25519PublicKey, pk)] = .ok dts ∧
        sign dts = some sig ∧ edVerify pk dts sig = true) :=
  signFile_layout H512 sign edVerify pk file out h

/-- T1': every block the library serializes is deterministic CBOR (accepted by the C13-verified checker) -/
theorem block_is_deterministic_cbor (b : Block) (out : Bytes) (h : blockCbor b = .ok out)
    (hk : ∀ s ∈ b.stack, ∀ kv ∈ s.attrs, utf8Valid kv.1 = true) (hlen : BlockBounded b) :
    Spec.Cbor.DetItem out ∧ Det.deterministic out = .ok () :=
  ⟨blockCbor_deterministic b out h hk hlen, blockCbor_deterministic_check b out h hk hlen⟩

/-- T2 (history invariant, any sequence of 1..k signing operations): the stack is newest-first, entry i carries
    operation i's attributes and a signature that verifies under that operation's key over the data-to-be-signed
    built from the block as it stood before; failed operations add nothing. -/
theorem stack_newest_first_and_verifies (edVerify : Bytes → Bytes → Bytes → Bool) (hash : Bytes) (ops : List Op) :
    (signMany edVerify hash ops).1.magic = blockMagic ∧ (signMany edVerify hash ops).1.version = versionB1 ∧
    GoodStack hash edVerify (signMany edVerify hash ops).1.stack (signMany edVerify hash ops).2 :=
  signMany_good edVerify hash ops

theorem earlier_signatures_untouched (edVerify : Bytes → Bytes → Bytes → Bool) (hash : Bytes) (ops more : List Op) :
    ∃ newEntries, (signMany edVerify hash (ops ++ more)).1.stack = newEntries ++ (signMany edVerify hash ops).1.stack ∧
      newEntries.length ≤ more.length := signMany_earlier_unchanged edVerify hash ops more

/-- T3: success iff block encodes, is deterministic, the strategy signs and the signature verifies under the
    key about to be recorded (fix F8); then exactly one entry is prepended ... -/
theorem signAndAdd_iff (sign : Bytes → Option Bytes) (edVerify : Bytes → Bytes → Bytes → Bool) (hash : Bytes) (b : Block)
    (pk : Bytes) (attrs : List (Bytes × Bytes)) (b' : Block) :
    signAndAdd sign edVerify hash b pk attrs = .ok (.ok b') ↔
      ∃ bb dts sig, blockCbor b = .ok bb ∧ Det.deterministic bb = .ok () ∧
        dataToBeSigned hash bb attrs = .ok dts ∧ sign dts = some sig ∧ edVerify pk dts sig = true ∧
        b' = { b with stack := ⟨attrs, sig⟩ :: b.stack } := signAndAdd_ok_iff sign edVerify hash b pk attrs b'

/-- ... a signature that does not verify under the public key to be recorded is an error and nothing is added -/
theorem mismatching_key_refused (sign : Bytes → Option Bytes) (edVerify : Bytes → Bytes → Bytes → Bool) (hash : Bytes)
    (b : Block) (pk : Bytes) (attrs : List (Bytes × Bytes)) (bb dts sig : Bytes)
    (hb : blockCbor b = .ok bb) (hd : Det.deterministic bb = .ok ())
    (hdts : dataToBeSigned hash bb attrs = .ok dts) (hs : sign dts = some sig) (hv : edVerify pk dts sig = false) :
    signAndAdd sign edVerify hash b pk attrs = .ok (.error .verification) :=
  signAndAdd_verification_fails sign edVerify hash b pk attrs bb dts sig hb hd hdts hs hv

/-- T3': a file is accepted for signing iff its last 8 bytes state its own length (no existing block, no
    trailer exceeding the size, no "negative" trailer) -/
theorem obtain_iff (file : Bytes) (hlen : file.length < 2 ^ 63) :
    (obtain file).isSome = true ↔ (8 ≤ file.length ∧ beVal (file.drop (file.length - 8)) = file.length) :=
  IB.obtain_iff file hlen

/-- T4: data-to-be-signed determines hash, block and attributes (three length-prefixed parts) -/
theorem dataToBeSigned_injective (h₁ h₂ b₁ b₂ : Bytes) (a₁ a₂ : List (Bytes × Bytes)) (d : Bytes)
    (hh1 : h₁.length < 2 ^ 64) (hh2 : h₂.length < 2 ^ 64) (hb1 : b₁.length < 2 ^ 64) (hb2 : b₂.length < 2 ^ 64)
    (e1 : dataToBeSigned h₁ b₁ a₁ = .ok d) (e2 : dataToBeSigned h₂ b₂ a₂ = .ok d) :
    h₁ = h₂ ∧ b₁ = b₂ ∧ attrsCbor a₁ = attrsCbor a₂ :=
  IB.dataToBeSigned_injective h₁ h₂ b₁ b₂ a₁ a₂ d hh1 hh2 hb1 hb2 e1 e2

/-- T5: the Web Bundle ID of a 32-byte key is 56 characters of [a-z2-7] (lower-case unpadded base32 of
    key ‖ 00 01 02) and determines the key -/
theorem webBundleId_shape (pk : Bytes) (h : pk.length = 32) :
    (webBundleId pk).length = 56 ∧ ∀ c ∈ webBundleId pk, (97 ≤ c ∧ c ≤ 122) ∨ (50 ≤ c ∧ c ≤ 55) := webBundleId_32 pk h

theorem webBundleId_determines_key (p q : Bytes) (hp : p.length = 32) (hq : q.length = 32)
    (h : webBundleId p = webBundleId q) : p = q := webBundleId_injective p q hp hq h

end WebPkg.C07
