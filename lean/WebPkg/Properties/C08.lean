import WebPkg.Proofs.SxgSpec
/-
  C08 — Signed-exchange bytes conform to the spec as recomputed independently.
  Model: Model/Sxg.lean (signer.go, signedexchange.go after fixes F1, F9).  Spec: Spec/Sxg.lean, written from
  the draft text: canonical CBOR maps are specified declaratively (the strictly key-sorted arrangement),
  the message / file / Signature-header layouts as explicit concatenations.
-/
namespace WebPkg.C08
open WebPkg.Sxg WebPkg.Spec.Sxg WebPkg.Cbor

/-- T1: the request/response header block is the canonical CBOR the spec prescribes: b3 = map from
    lower-cased names (and ":status") to comma-joined values; b1/b2 = array [request map, response map];
    every header-set size (all CBOR length classes). -/
theorem headers_eq_spec (e : Exchange) (hdr : Bytes) (h : encodeExchangeHeaders e = .ok hdr) : IsHeaders e hdr :=
  encodeExchangeHeaders_spec e hdr h

/-- T1': it fails exactly when two names collide after case folding (or with a pseudo-header) -/
theorem headers_fail_iff (e : Exchange) : (∃ err, encodeExchangeHeaders e = .error err) ↔
    ((e.version ≠ .b3 ∧ ¬ ((requestPairs e).map Prod.fst).Nodup) ∨ ¬ ((responsePairs e).map Prod.fst).Nodup) :=
  encodeExchangeHeaders_fails_iff e

/-- T2 (b2/b3): the message that gets signed is 64 spaces ‖ context ‖ 0 ‖ 32 ‖ cert-sha256 ‖ u64-length-prefixed
    validity-url ‖ u64 date ‖ u64 expires ‖ u64-prefixed requestUrl ‖ u64-prefixed headers; it exists iff
    date, expires ≥ 0 and the headers encode. -/
theorem signedMessage_b23_eq_spec (e : Exchange) (hv : e.version ≠ .b1) (certSha validityUrl : Bytes) (date expires : Int)
    (msg : Bytes) (h : signedMessage e (some certSha) validityUrl date expires = some msg) :
    0 ≤ date ∧ 0 ≤ expires ∧ ∃ hdr, IsHeaders e hdr ∧ msg = messageB23 e certSha validityUrl date.toNat expires.toNat hdr :=
  signedMessage_b23_spec e hv certSha validityUrl date expires msg h

theorem signedMessage_b23_exists_iff (e : Exchange) (hv : e.version ≠ .b1) (certSha validityUrl : Bytes) (date expires : Int) :
    (∃ msg, signedMessage e (some certSha) validityUrl date expires = some msg) ↔
      (0 ≤ date ∧ 0 ≤ expires ∧ ∃ hdr, encodeExchangeHeaders e = .ok hdr) :=
  signedMessage_b23_isSome_iff e hv certSha validityUrl date expires

/-- T2 (b1): 64 spaces ‖ context ‖ 0 ‖ canonical CBOR map {cert-sha256, validity-url, date, expires, headers} -/
theorem signedMessage_b1_eq_spec (e : Exchange) (hv : e.version = .b1) (certSha validityUrl : Bytes) (date expires : Int)
    (msg : Bytes) (h : signedMessage e (some certSha) validityUrl date expires = some msg) :
    ∃ hdr, IsHeaders e hdr ∧ IsMessageB1 e certSha validityUrl date expires hdr msg :=
  signedMessage_b1_spec e hv certSha validityUrl date expires msg h

/-- T3: the file layout: magic, [2-byte URL length, URL,] 3-byte sigLength, 3-byte headerLength, signature,
    headers, payload; and the limits under which a file is emitted at all. -/
theorem file_eq_spec (e : Exchange) (out : Bytes) (h : write e = .ok out) :
    ∃ hdr, IsHeaders e hdr ∧ out = fileLayout e hdr ∧ e.sigHeader.length < 2 ^ 24 ∧ hdr.length < 2 ^ 24 ∧
      (e.version ≠ .b1 → e.uri.length < 2 ^ 16 ∧ e.sigHeader.length ≤ 16384 ∧ hdr.length ≤ 524288) :=
  write_spec e out h

/-- T4: the Signature header is the parameterised identifier `label` with the seven parameters in sorted
    order, byte sequences in base64 between '*', strings quoted. -/
theorem signature_header_eq_spec (v : Ver) (sig validityUrl certUrl certSha : Bytes) (date expires : Int)
    (hpr : ∀ c ∈ validityUrl ++ certUrl, 32 ≤ c ∧ c ≤ 126) :
    signatureHeaderValue v sig validityUrl certUrl certSha date expires =
      some (signatureHeader v sig validityUrl certUrl certSha date expires) :=
  signatureHeaderValue_spec v sig validityUrl certUrl certSha date expires hpr

/-- T5: the header-integrity value is "sha256-" ‖ base64(SHA-256(exactly those header bytes)) -/
theorem header_integrity (H : Bytes → Bytes) (e : Exchange) (hdr : Bytes) (h : encodeExchangeHeaders e = .ok hdr) :
    headerIntegrity H e = some ([115, 104, 97, 50, 53, 54, 45] ++ Base64.encode false true (H hdr)) ∧ IsHeaders e hdr := by
  refine ⟨by simp [headerIntegrity, h], encodeExchangeHeaders_spec e hdr h⟩

end WebPkg.C08
