import WebPkg.Proofs.SxgVerify
import WebPkg.Proofs.GoTimeSane
/-
  C09 — Signed-exchange acceptance policy is enforced exactly.
  Model: Model/SxgVerify.lean (verifier.go, stateful_headers.go after fixes F10, F13).
  Spec: Spec/Policy.lean `Acceptable` — the plain conjunction of the draft's conditions.
-/
namespace WebPkg.C09
open WebPkg.Sxg WebPkg.Spec.Policy WebPkg.Http

/-- T1: verification succeeds **if and only if** some signature of the Signature header satisfies
    every acceptance condition (valid signature over the rebuilt message under the fetched leaf
    certificate whose hash is cert-sha256, payload integrity, same origin, time window and 7-day cap,
    integrity scheme, method / cacheability / Content-Type per version, no banned header). -/
theorem verify_iff_acceptable (env : Env) (e : Exchange) (t : GoTime.T) :
    (verify env e t).isSome = true ↔
      ∃ sigs, SH.parseParameterisedList e.sigHeader = some sigs ∧
        ∃ pi ∈ sigs, ∃ s p, extractSignature pi = some s ∧ Acceptable env e t s p :=
  verify_isSome_iff env e t

/-- T1': per signature, with the payload returned -/
theorem verifyOne_iff_acceptable (env : Env) (e : Exchange) (t : GoTime.T) (pi : SH.PI) (p : Bytes) :
    verifyOne env e t pi = some p ↔ ∃ s, extractSignature pi = some s ∧ Acceptable env e t s p :=
  verifyOne_iff env e t pi p

/-- T2: banned-header tests are exactly case-insensitive membership in the spec tables -/
theorem isUncached_iff (n : Bytes) : isUncachedHeader n = true ↔ lowerAscii n ∈ uncachedHeaders := by
  simp [isUncachedHeader]

theorem isStateful_iff (n : Bytes) : isStatefulRequestHeader n = true ↔ lowerAscii n ∈ statefulRequestHeaders := by
  simp [isStatefulRequestHeader]

theorem headersOk_iff (e : Exchange) : headersOk e = true ↔
    (∀ kv ∈ e.reqHeaders, lowerAscii kv.1 ∉ statefulRequestHeaders) ∧
    (∀ kv ∈ e.respHeaders, lowerAscii kv.1 ∉ uncachedHeaders) := by
  simp [headersOk, isUncachedHeader, isStatefulRequestHeader]

/-- T3: letter case never matters for the banned-header tests -/
theorem toLowerByte_idem_fin : ∀ n : Fin 256, toLowerByte (toLowerByte (UInt8.ofNat n.val)) = toLowerByte (UInt8.ofNat n.val) := by
  decide +kernel

theorem lowerAscii_idem (s : Bytes) : lowerAscii (lowerAscii s) = lowerAscii s := by
  induction s with
  | nil => rfl
  | cons c rest ih =>
    simp only [lowerAscii, List.map_cons, List.map_map] at ih ⊢
    congr 1
    have := toLowerByte_idem_fin ⟨c.toNat, c.toNat_lt⟩
    simpa using this

theorem isUncached_case_insensitive (a b : Bytes) (h : lowerAscii a = lowerAscii b) :
    isUncachedHeader a = isUncachedHeader b := by simp [isUncachedHeader, h]

/-- T4: on the sane range (|date|, |expires|, |t| < 2^62 seconds) Go's `time.Unix` / `Sub` / `Before` / `After`
    window test is exactly: lifetime ≤ 604800 s and date ≤ t ≤ expires as instants (overflow branch of
    `Time.Sub` included). -/
theorem timestamps_iff (s : Signature) (ts tn : Int)
    (hd : -(2:Int)^62 ≤ s.date ∧ s.date < (2:Int)^62) (hx : -(2:Int)^62 ≤ s.expires ∧ s.expires < (2:Int)^62)
    (ht : -(2:Int)^62 ≤ ts ∧ ts < (2:Int)^62) (hn : 0 ≤ tn ∧ tn < 1000000000) :
    timestampsOk s (GoTime.ofUnix ts tn) = true ↔
      (s.expires - s.date ≤ 604800 ∧ (s.date < ts ∨ (s.date = ts ∧ 0 ≤ tn)) ∧ (ts < s.expires ∨ (ts = s.expires ∧ tn ≤ 0))) :=
  timestampsOk_iff s ts tn hd hx ht hn

/-- T5: same-origin is an equivalence-style test on (scheme, host, port) facts -/
theorem sameOrigin_reflexive (a : Bytes × Bytes × Bytes) : sameOrigin a a = true := sameOrigin_refl a
theorem sameOrigin_symmetric (a b : Bytes × Bytes × Bytes) : sameOrigin a b = sameOrigin b a := sameOrigin_symm a b

/-! non-vacuity: the tables are the ones of the spec (sizes) -/
example : uncachedHeaders.length = 19 ∧ statefulRequestHeaders.length = 5 := by decide
example : isUncachedHeader [83, 69, 84, 45, 99, 111, 111, 107, 105, 101] = true := by decide   -- "SET-cookie"

end WebPkg.C09
