import WebPkg.Proofs.ResParsers
import WebPkg.Proofs.BundleSafe
import WebPkg.Proofs.ResRefine
/-
  C10 — Every parser of external data is total and resource-bounded.

  Totality: every model function is a total Lean function (no `partial`, no `unsafe`: checked by the forbidden-token
  scan); loops driven by a declared count are structural recursions that stop at the first decode error.
  No panic: the entry points whose Go code indexes or slices with numbers taken from the input are modelled with an
  explicit `.panic` outcome (bundle reader: C05.read_no_panic, re-exported here); the other parsers read through
  io.Reader only.
  Resource bounds: `Model/ResParsers.lean` gives, for every entry point, a cost skeleton over the reader monad of
  `Model/Resource.lean` (allocation and step counters charged where the Go code spends them, also on failing paths).
  The theorems below bound that cost by a linear function of the input length *for every input*: declared lengths
  and counts never enter the bound.
-/
namespace WebPkg.C10
open WebPkg.Res WebPkg.Cbor

/-- the heart: a loop driven by a count taken from the input costs `A·|input| + F + 1`, whatever the count -/
theorem declared_counts_do_not_matter {α} (A F : Nat) (body : α → RM α) (h : ∀ a, Prog A F (body a)) (n : Nat) (a : α) :
    Good A 0 (F + 1) (RM.loop body n a) := good_loop h n a

/-- CBOR decoder entry points (DecodeUint / ArrayHeader / MapHeader / ByteString / TextString) -/
theorem cbor_linear (e : CborEntry) (bs : Bytes) :
    (RM.run (cborEntry e) bs).2.alloc ≤ 4 * bs.length + 6 ∧ (RM.run (cborEntry e) bs).2.steps ≤ 4 * bs.length + 6 :=
  cborEntry_linear e bs

/-- `certurl.ReadCertChain` -/
theorem certChain_linear (bs : Bytes) :
    (RM.run certChain bs).2.alloc ≤ 6 * bs.length + 8 ∧ (RM.run certChain bs).2.steps ≤ 6 * bs.length + 8 :=
  Res.certChain_linear bs

/-- `signedexchange.ReadExchange`: the constant is the 3-byte length fields (`make` precedes `ReadFull`) -/
theorem sxgRead_linear (bs : Bytes) :
    (RM.run sxgRead bs).2.alloc ≤ 7 * bs.length + (2 ^ 24 + 6) ∧ (RM.run sxgRead bs).2.steps ≤ 7 * bs.length + (2 ^ 24 + 6) :=
  Res.sxgRead_linear bs

/-- bundle-signature verifier: `decodeSignedSubset` -/
theorem signedSubset_linear (bs : Bytes) :
    (RM.run signedSubset bs).2.alloc ≤ 4 * bs.length + 9 ∧ (RM.run signedSubset bs).2.steps ≤ 4 * bs.length + 9 :=
  Res.signedSubset_linear bs

/-- MI decoder: the record buffer is allocated only after the record size passed the caller's limit -/
theorem mice_linear (d02 : Bool) (mx : Nat) (bs : Bytes) :
    (RM.run (miceDecode d02 mx) bs).2.alloc ≤ 3 * bs.length + (mx + 522) ∧
    (RM.run (miceDecode d02 mx) bs).2.steps ≤ 3 * bs.length + (mx + 522) :=
  miceDecode_linear d02 mx bs

/-- structured-header parsers and integrity-block detection -/
theorem sh_linear (bs : Bytes) : (shCost bs).alloc ≤ bs.length ∧ (shCost bs).steps ≤ 2 * bs.length + 1 := shCost_linear bs
theorem ib_const : ibCost.alloc = 16 ∧ ibCost.steps = 2 := ibCost_const

/-- `Exchange.Verify` (Signature header + fetched cert chain + MI payload) -/
theorem verify_linear (sigHeader certBytes payload : Bytes) (d02 : Bool) :
    (verifyCost sigHeader certBytes payload d02).alloc ≤ 6 * (sigHeader.length + certBytes.length + payload.length) + 16914 ∧
    (verifyCost sigHeader certBytes payload d02).steps ≤ 6 * (sigHeader.length + certBytes.length + payload.length) + 16915 :=
  verifyCost_linear sigHeader certBytes payload d02


/-! ### the skeletons are upper bounds of the full models' control flow
    (whenever the full model of a parser accepts an input, its cost skeleton accepts it too: dropping an early exit only
    lets the skeleton go further; for the CBOR entry points the two coincide exactly) -/
theorem skeleton_cbor_exact (bs : Bytes) :
    (RM.run (cborEntry .uint) bs).1.isSome = (Cbor.decodeUint bs).isSome ∧
    (RM.run (cborEntry .arrayHeader) bs).1.isSome = (Cbor.decodeArrayHeader bs).isSome ∧
    (RM.run (cborEntry .mapHeader) bs).1.isSome = (Cbor.decodeMapHeader bs).isSome ∧
    (RM.run (cborEntry .bytes) bs).1.isSome = (Cbor.decodeByteString bs).isSome ∧
    (RM.run (cborEntry .text) bs).1.isSome = (Cbor.decodeTextString bs).isSome :=
  ⟨rr_cbor_uint bs, rr_cbor_arrayHeader bs, rr_cbor_mapHeader bs, rr_cbor_bytes bs, rr_cbor_text bs⟩

theorem skeleton_accepts_certChain (parseOk : Bytes → Bool) (bs : Bytes) :
    (CertChain.read parseOk bs).isSome = true → (RM.run certChain bs).1 = some () := rr_certChain parseOk bs

theorem skeleton_accepts_signedSubset (urlOk : Bytes → Bool) (bs : Bytes) (ss : BSig.SignedSubset) :
    BSig.decodeSignedSubset urlOk bs = some ss → (RM.run signedSubset bs).1 = some () := rr_signedSubset urlOk bs ss

theorem skeleton_accepts_sxg (url : Sxg.UrlFacts) (bs : Bytes) (e : Sxg.Exchange) :
    Sxg.read url bs = .ok e → (RM.run sxgRead bs).1 = some () := rr_sxgRead url bs e

theorem skeleton_accepts_mice (H : Bytes → Bytes) (enc : Mice.Enc) (bs digest : Bytes) (mx : Nat) (st : Mice.State) :
    Mice.newDecoder H enc bs digest mx = .ok st → (RM.run (miceDecode (enc == .draft02) mx) bs).1 = some () :=
  rr_mice H enc bs digest mx st

/-- and for the bundle reader, with the same number of index entries as exchanges returned -/
theorem skeleton_accepts_bundle (url : Bundle.BUrlFacts) (parseOk : Bytes → Bool) (bs : Bytes) (b : Bundle.Bundle)
    (hlen : bs.length < 2 ^ 64) :
    Bundle.read url parseOk bs = .ok b → (bundleRead bs).1 = some () ∧ (bundleRead bs).2.2.length = b.exchanges.length :=
  rr_bundleRead url parseOk bs b hlen

/-! ### bundle reader -/

/-- the number of index entries is bounded by the input, and each lies inside it -/
theorem bundle_entries (bs : Bytes) :
    (bundleRead bs).2.2.length ≤ bs.length ∧ ∀ e ∈ (bundleRead bs).2.2, e.1 + e.2 ≤ bs.length :=
  ⟨bundleRead_entries_le bs, bundleRead_entry_le bs⟩

/-- for every input: metadata is linear, each index entry adds the cost of re-reading its response -/
theorem bundle_general (bs : Bytes) :
    (bundleRead bs).2.1.m ≤ 12 * bs.length + 520 + ((bundleRead bs).2.2.map (fun e => 8 * e.2 + 8)).sum :=
  bundleRead_general bs

/-- hence at most quadratic, always -/
theorem bundle_quadratic (bs : Bytes) :
    (bundleRead bs).2.1.m ≤ 12 * bs.length + 520 + bs.length * (8 * bs.length + 8) := bundleRead_quadratic bs

/-- PARTIAL (finding F15): the linear bound the property asks for holds when the index entries do not share bytes of
    the responses section (what every bundle writer produces) ... -/
theorem bundle_linear_partial (bs : Bytes) (hd : Disjoint (bundleRead bs).2.2) :
    (bundleRead bs).2.1.m ≤ 28 * bs.length + 520 := bundleRead_linear_of_disjoint bs hd

/-- ... and it fails without that hypothesis: `k` index entries naming the same response pay for it `k` times, there is no
    sharing in `bundle.Read` (each `loadResponse` copies header and body). With a response of `m` bytes and `k ≈ m/25`
    entries the input has about `2m` bytes and the cost is about `k·2m`: not linear. The implementation behaves the
    same (KNOWN_FINDINGS F15: 619 KB input, 4.2 GB allocated). -/
theorem bundle_not_linear (resp : Bytes) (off len : Nat) (r : Bytes) (d : Cost)
    (h : response ((resp.drop off).take len) {} = (some ((), r), d)) (k : Nat) (c : Cost) :
    (responsesCost resp (List.replicate k (off, len)) c).2.m = c.m + k * (d.m + 1) :=
  responsesCost_replicate_m resp off len r d h k c

/-- no panic on any input (bundle reader: the only parser that slices with offsets from the input) -/
theorem bundle_read_no_panic (url : Bundle.BUrlFacts) (parseOk : Bytes → Bool) (bs : Bytes) (h : bs.length < 2 ^ 64) :
    Bundle.read url parseOk bs ≠ .panic := Bundle.read_no_panic url parseOk bs h

end WebPkg.C10
