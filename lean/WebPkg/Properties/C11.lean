import WebPkg.Properties.C11Base
import WebPkg.Properties.C11Seq
/-
  C11 — CBOR encoder. Root of the property:
  * `Properties/C11Base.lean` (namespace `WebPkg.C11`): the per-call statements (heads shortest and read back by an independent
    decoder, integers, strings, UTF-8 refusal, map layout / order independence / duplicate refusal);
  * `Properties/C11Seq.lean` (namespace `WebPkg.CborSeq`): the statement about ANY SEQUENCE of encoder calls on one encoder, maps nested
    to any depth, refused calls included: an independent token-level RFC 8949 decoder reads back exactly the accepted values in order
    (`run_tokens`), every head is in shortest form (`run_shortest`), a call is refused iff it is invalid UTF-8 text or a map with two
    equal encoded keys (`run_refuses_iff`), a refused call leaves no trace in the stream (`run_refused_no_trace`; this is what defect
    F16 violated), maps do not depend on the caller's entry order (`run_map_perm`). Helper lemmas there are prefixed `cs_`.
-/
