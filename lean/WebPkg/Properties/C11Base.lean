import WebPkg.Proofs.Cbor
import WebPkg.Proofs.Sort
/-
  C11 — CBOR encoder emits canonical CBOR that decodes to the same values.
  Headline theorems only; lemmas live in Proofs/.  Model: Model/Cbor.lean (encoder.go).
  Spec: Spec/Cbor.lean (RFC 8949 heads as a relation, written independently of the Go code).
-/
namespace WebPkg.C11
open WebPkg.Cbor WebPkg.Spec.Cbor

/-- T1: every head the encoder writes is an RFC 8949 head of the requested major type and argument,
    in shortest form, and an independent decoder reads it back (for every uint64 argument). -/
theorem encodeHead_decode (mt n : Nat) (hmt : mt < 8) (hn : n < 2 ^ 64) (r : Bytes) :
    ShortestHead (encodeHead mt n) mt n ∧ decodeHead (encodeHead mt n ++ r) = some (mt, n, r) :=
  ⟨encodeHead_shortest mt n hmt hn, decodeHead_of_isHead (encodeHead_isHead mt n hmt hn) r⟩

/-- T1b: the shortest head is unique, so the encoder's choice is the canonical one. -/
theorem encodeHead_shortest_unique (mt n : Nat) (hmt : mt < 8) (hn : n < 2 ^ 64) (h : Bytes)
    (hs : ShortestHead h mt n) : h = encodeHead mt n := shortest_unique hmt hn hs

/-- T2: `EncodeInt` for every int64: shortest head of major type 0 or 1 denoting exactly `z`
    (including MinInt64, where Go computes `uint64(-n)-1` with wrap-around). -/
theorem encodeInt_value (z : Int) (hlo : -(2 : Int) ^ 63 ≤ z) (hhi : z < (2 : Int) ^ 63) :
    ∃ mt n, (mt = 0 ∨ mt = 1) ∧ ShortestHead (encodeInt z) mt n ∧ intValue mt n = z := by
  unfold encodeInt
  by_cases h : 0 ≤ z
  · simp only [h, if_true]
    refine ⟨0, z.toNat, Or.inl rfl, encodeHead_shortest 0 _ (by decide) (by omega), ?_⟩
    simp [intValue]; omega
  · simp only [h, if_false]
    refine ⟨1, (-z).toNat - 1, Or.inr rfl, encodeHead_shortest 1 _ (by decide) (by omega), ?_⟩
    simp [intValue]; omega

/-- T3: `EncodeByteString` writes a complete definite-length byte string item with shortest head. -/
theorem encodeBytes_item (bs : Bytes) (hl : bs.length < 2 ^ 64) :
    IsString 2 (encodeBytes bs) bs ∧ ShortestHead (encodeHead 2 bs.length) 2 bs.length :=
  ⟨⟨_, encodeHead_isHead 2 _ (by decide) hl, rfl⟩, encodeHead_shortest 2 _ (by decide) hl⟩

/-- T4: `EncodeTextString` succeeds exactly on valid UTF-8 and then writes a complete text item;
    invalid UTF-8 is refused with `ErrInvalidUTF8` and nothing is written. -/
theorem encodeText_iff (s : Bytes) (hl : s.length < 2 ^ 64) :
    (utf8Valid s = true → ∃ out, encodeText s = .ok out ∧ IsString 3 out s) ∧
    (utf8Valid s = false → encodeText s = .error .invalidUtf8) := by
  constructor
  · intro h
    exact ⟨_, by simp [encodeText, h], _, encodeHead_isHead 3 _ (by decide) hl, rfl⟩
  · intro h; simp [encodeText, h]

/-- T5: a successful `EncodeMap` emits the map head with the entry count, then all entries
    (a permutation of the input, nothing dropped or duplicated) in strictly ascending bytewise
    order of their encoded keys. -/
theorem encodeMap_layout (es : List Entry) (out : Bytes) (h : encodeMap es = .ok out) :
    ∃ sorted : List Entry, sorted.Perm es ∧ StrictAsc sorted ∧
      out = encodeHead 5 es.length ++ (sorted.map fun e => e.1 ++ e.2).flatten := by
  unfold encodeMap at h
  simp only at h
  by_cases hd : hasAdjDup (sortEntries es) = true
  · simp [hd] at h
  · simp only [hd] at h
    simp at h
    refine ⟨sortEntries es, sortEntries_perm es, ?_, h.symm⟩
    exact strictAsc_of_sorted_noAdjDup _ (sortEntries_sorted es) (by simpa using hd)

/-- T6: the result is `ErrDuplicatedKey` exactly when two entries have equal encoded keys. -/
theorem encodeMap_dup_iff (es : List Entry) :
    encodeMap es = .error .duplicatedKey ↔ ¬ (es.map Prod.fst).Nodup := by
  rw [← hasAdjDup_sort_iff]
  unfold encodeMap
  cases hd : hasAdjDup (sortEntries es) <;> simp [hd]

/-- T7: the output (bytes or error) does not depend on the order in which the caller supplied the
    entries: identical for every permutation (this is what makes Go's random map iteration harmless). -/
theorem encodeMap_perm (es₁ es₂ : List Entry) (hp : es₁.Perm es₂) : encodeMap es₁ = encodeMap es₂ := by
  by_cases hnd : (es₁.map Prod.fst).Nodup
  · have hnd2 : (es₂.map Prod.fst).Nodup := ((hp.map Prod.fst).nodup_iff).mp hnd
    unfold encodeMap
    simp only [sort_perm_eq es₁ es₂ hp hnd, hp.length_eq]
  · have hnd2 : ¬ (es₂.map Prod.fst).Nodup := fun h => hnd (((hp.map Prod.fst).nodup_iff).mpr h)
    rw [(encodeMap_dup_iff es₁).mpr hnd, (encodeMap_dup_iff es₂).mpr hnd2]

/-- T8: what any correct sort produces is what `EncodeMap` emits (the model's `mergeSort` is not
    special): any key-sorted permutation of distinct-key entries equals `sortEntries`. -/
theorem encodeMap_sort_independent (es l : List Entry) (hp : l.Perm es) (hnd : (es.map Prod.fst).Nodup)
    (hs : l.Pairwise (fun a b => entryLe a b = true)) : l = sortEntries es :=
  sorted_perm_unique l _ (hp.trans (sortEntries_perm es).symm) (((hp.map Prod.fst).nodup_iff).mpr hnd) hs
    (sortEntries_sorted es)

/-- T9: booleans are the simple values 20 / 21 of major type 7. -/
theorem encodeBool_value (b : Bool) : encodeBool b = [UInt8.ofNat (32 * 7 + (if b then 21 else 20))] := by
  cases b <;> rfl

/-! non-vacuity: concrete instances meeting the hypotheses -/
example : encodeHead 0 500 = [0x19, 0x01, 0xf4] := by decide
example : encodeInt (-500) = [0x39, 0x01, 0xf3] := by decide
example : encodeInt (-(2 : Int) ^ 63) = [0x3b, 0x7f, 0xff, 0xff, 0xff, 0xff, 0xff, 0xff, 0xff] := by decide
example : (([([0x41, 0x62], [1]), ([0x41, 0x61], [2])] : List Entry).map Prod.fst).Nodup := by decide
example : encodeMap [([0x41, 0x62], [1]), ([0x41, 0x62], [2])] = .error .duplicatedKey :=
  (encodeMap_dup_iff _).mpr (by decide)

end WebPkg.C11
