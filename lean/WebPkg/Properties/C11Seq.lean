import WebPkg.Properties.C11Base
import WebPkg.Model.CborSeq
import WebPkg.Properties.C12
import WebPkg.Proofs.Deterministic
set_option linter.unusedSimpArgs false
/-
  C11, sequence level.  Any sequence of calls on one `cbor.Encoder` — maps nested to any depth, refused
  calls included — leaves a stream which an independent token-level RFC 8949 decoder reads back as
  exactly the values of the accepted calls, in order, with every head in shortest form.

  Main results (all for arbitrary `cs : List Call` with `InRange cs`):
    run_tokens       tokens (run cs) = some (expected (accepted cs))
    run_shortest     run cs = encodeTokens (expected (accepted cs))        (shortest heads, byte for byte)
    run_refuses_iff  refused ⇔ invalid-UTF-8 text ∨ map with two keys of equal encoding
    encodeCall_error_iff, map_accepted_of_distinct, encodeCall_map_perm, run_map_perm,
    run_refused_no_trace, run_accepted, run_text_valid, expectedCall_map, sortCalls_strict/_unique,
    tokens_encodeTokens (decoder ∘ shortest encoder = id on all in-range token lists),
    cs_readHead_iff_isHead (the independent head reader accepts exactly `Spec.Cbor.IsHead`).
  Design choices and what is left out: NOTES.md.  Flat fragment (no maps): CborSeqFlat.lean.
-/
namespace WebPkg.CborSeq
open WebPkg WebPkg.Cbor WebPkg.Spec.Cbor


/-- bytes a call contributes to the stream: its output if accepted, nothing if refused -/
def emit (c : Call) : Bytes :=
  match encodeCall c with
  | .ok bs => bs
  | .error _ => []

def isAccepted (c : Call) : Bool :=
  match encodeCall c with
  | .ok _ => true
  | .error _ => false

/-- the calls (of the top-level sequence) that were not refused -/
def accepted (cs : List Call) : List Call := cs.filter isAccepted

mutual
/-- all numbers fit the Go argument types (uint64 / int64 / lengths and counts below 2^64) -/
def callInRange : Call → Bool
  | .uint n => decide (n < 2 ^ 64)
  | .int z => decide (-(2 : Int) ^ 63 ≤ z) && decide (z < (2 : Int) ^ 63)
  | .bytes b => decide (b.length < 2 ^ 64)
  | .text s => decide (s.length < 2 ^ 64)
  | .arrayHeader n => decide (n < 2 ^ 64)
  | .bool _ => true
  | .map es => decide (es.length < 2 ^ 64) && entriesInRange es
def seqInRange : List Call → Bool
  | [] => true
  | c :: cs => callInRange c && seqInRange cs
def entriesInRange : List (List Call × List Call) → Bool
  | [] => true
  | (k, v) :: es => seqInRange k && seqInRange v && entriesInRange es
end

def InRange (cs : List Call) : Prop := seqInRange cs = true

instance (cs : List Call) : Decidable (InRange cs) := by unfold InRange; infer_instance

/-! ## 2. an independent token-level decoder (RFC 8949 section 3) -/

inductive Token where
  | uint (n : Nat)        -- major type 0
  | nint (n : Nat)        -- major type 1, denotes -1 - n
  | bytes (b : Bytes)     -- major type 2, definite length
  | text (s : Bytes)      -- major type 3, definite length (content not checked here)
  | array (n : Nat)       -- major type 4 head (n items follow)
  | map (n : Nat)         -- major type 5 head (n pairs follow)
  | tag (n : Nat)         -- major type 6 head
  | simple (v : Nat)      -- major type 7, additional information 0..24 (20 = false, 21 = true)
  | float (ai : Nat) (bits : Nat)  -- major type 7, additional information 25/26/27
  deriving Repr, DecidableEq

/-- big-endian value of the argument bytes -/
def natBE (bs : Bytes) : Nat := bs.foldl (fun acc b => 256 * acc + b.toNat) 0

/-- number of argument bytes announced by additional information 24..27 (0: none of these) -/
def argBytes (ai : Nat) : Nat :=
  if ai = 24 then 1 else if ai = 25 then 2 else if ai = 26 then 4 else if ai = 27 then 8 else 0

/-- Read one head: initial byte = 3 bits major type, 5 bits additional information `ai`;
    `ai < 24`: the argument is `ai`; 24/25/26/27: 1/2/4/8 argument bytes follow, big-endian;
    28..30 reserved and 31 (indefinite length / break) are not accepted.
    Every width is accepted for every value (no shortest-form check).
    Result: (major type, ai, argument, rest). -/
def readHead : Bytes → Option (Nat × Nat × Nat × Bytes)
  | [] => none
  | b :: rest =>
    if b.toNat % 32 < 24 then some (b.toNat / 32, b.toNat % 32, b.toNat % 32, rest)
    else if argBytes (b.toNat % 32) = 0 then none
    else if rest.length < argBytes (b.toNat % 32) then none
    else some (b.toNat / 32, b.toNat % 32, natBE (rest.take (argBytes (b.toNat % 32))),
      rest.drop (argBytes (b.toNat % 32)))

/-- what follows a head: a string body for major types 2 and 3, nothing otherwise -/
def readBody (mt ai n : Nat) (rest : Bytes) : Option (Token × Bytes) :=
  if mt = 0 then some (.uint n, rest)
  else if mt = 1 then some (.nint n, rest)
  else if mt = 2 then (if rest.length < n then none else some (.bytes (rest.take n), rest.drop n))
  else if mt = 3 then (if rest.length < n then none else some (.text (rest.take n), rest.drop n))
  else if mt = 4 then some (.array n, rest)
  else if mt = 5 then some (.map n, rest)
  else if mt = 6 then some (.tag n, rest)
  else if ai ≤ 24 then some (.simple n, rest)
  else some (.float ai n, rest)

def readToken (bs : Bytes) : Option (Token × Bytes) :=
  match readHead bs with
  | none => none
  | some (mt, ai, n, rest) => readBody mt ai n rest

def tokensAux : Nat → Bytes → Option (List Token)
  | _, [] => some []
  | 0, _ :: _ => none
  | fuel + 1, b :: bs =>
    match readToken (b :: bs) with
    | none => none
    | some (t, rest) => (tokensAux fuel rest).map (t :: ·)

/-- the whole input as a list of tokens; `none` if it is not a sequence of complete heads and
    string bodies (every token consumes at least one byte, so `bs.length` is enough fuel) -/
def tokens (bs : Bytes) : Option (List Token) := tokensAux bs.length bs

/-! ## 3. re-encoding tokens with shortest heads (RFC 8949 section 4.2.1) -/

/-- additional information of the preferred (shortest) head for argument `n` -/
def aiOf (n : Nat) : Nat :=
  if n < 24 then n else if n < 2 ^ 8 then 24 else if n < 2 ^ 16 then 25 else if n < 2 ^ 32 then 26 else 27

/-- number of argument bytes of the preferred head -/
def widthOf (n : Nat) : Nat :=
  if n < 24 then 0 else if n < 2 ^ 8 then 1 else if n < 2 ^ 16 then 2 else if n < 2 ^ 32 then 4 else 8

/-- the preferred head: the shortest of the five forms that can hold `n` -/
def minHead (mt n : Nat) : Bytes := UInt8.ofNat (32 * mt + aiOf n) :: beBytes (widthOf n) n

def encodeToken : Token → Bytes
  | .uint n => minHead 0 n
  | .nint n => minHead 1 n
  | .bytes b => minHead 2 b.length ++ b
  | .text s => minHead 3 s.length ++ s
  | .array n => minHead 4 n
  | .map n => minHead 5 n
  | .tag n => minHead 6 n
  | .simple v => minHead 7 v
  | .float ai bits => UInt8.ofNat (32 * 7 + ai) :: beBytes (2 ^ (ai - 24)) bits

def encodeTokens : List Token → Bytes
  | [] => []
  | t :: ts => encodeToken t ++ encodeTokens ts

/-- tokens whose numbers fit a head (argument < 2^64; simple values one byte; no floats) -/
def tokOK : Token → Bool
  | .uint n => decide (n < 2 ^ 64)
  | .nint n => decide (n < 2 ^ 64)
  | .bytes b => decide (b.length < 2 ^ 64)
  | .text s => decide (s.length < 2 ^ 64)
  | .array n => decide (n < 2 ^ 64)
  | .map n => decide (n < 2 ^ 64)
  | .tag n => decide (n < 2 ^ 64)
  | .simple v => decide (v < 256)
  | .float _ _ => false

/-! ## 4. what the accepted calls stand for -/

/-- order of map entries: bytewise order of the encoded keys (`bytes.Compare(k₁, k₂) <= 0`) -/
def keyLe (a b : Bytes × List Token) : Bool := ble a.1 b.1

mutual
/-- the tokens a call stands for.  A map of `n` entries stands for the head `map n` followed by the
    tokens of key₁, value₁, key₂, value₂, … with the entries in ascending bytewise order of their
    encoded keys (see `expectedCall_map` for a reading without the auxiliary `entryToks`). -/
def expectedCall : Call → List Token
  | .uint n => [.uint n]
  | .int z => if 0 ≤ z then [.uint z.toNat] else [.nint (-1 - z).toNat]
  | .bytes b => [.bytes b]
  | .text s => [.text s]
  | .arrayHeader n => [.array n]
  | .bool b => [.simple (if b then 21 else 20)]
  | .map es => .map es.length :: (((entryToks es).mergeSort keyLe).map (·.2)).flatten
/-- tokens of the accepted calls of a sequence (= `expected (accepted cs)`, `cs_expectedAcc_eq`) -/
def expectedAcc : List Call → List Token
  | [] => []
  | c :: cs => (if isAccepted c then expectedCall c else []) ++ expectedAcc cs
/-- per entry: the encoded key (sort key) and the tokens of its key and value sequences -/
def entryToks : List (List Call × List Call) → List (Bytes × List Token)
  | [] => []
  | (k, v) :: es => (run k, expectedAcc k ++ expectedAcc v) :: entryToks es
end

def expected : List Call → List Token
  | [] => []
  | c :: cs => expectedCall c ++ expected cs

/-! ## lemmas: heads -/

theorem cs_minHead_eq (mt n : Nat) : minHead mt n = encodeHead mt n := by
  unfold minHead encodeHead aiOf widthOf
  by_cases h1 : n < 24
  · simp [h1, beBytes]
  · by_cases h2 : n < 2 ^ 8
    · simp [h1, h2]
    · by_cases h3 : n < 2 ^ 16
      · simp [h1, h2, h3]
      · by_cases h4 : n < 2 ^ 32 <;> simp [h1, h2, h3, h4]

/-- `minHead` is the RFC's shortest head (Spec/Cbor.lean), and the only one -/
theorem cs_minHead_shortest (mt n : Nat) (hmt : mt < 8) (hn : n < 2 ^ 64) :
    ShortestHead (minHead mt n) mt n ∧ ∀ h, ShortestHead h mt n → h = minHead mt n := by
  rw [cs_minHead_eq]
  exact ⟨encodeHead_shortest mt n hmt hn, fun h hs => shortest_unique hmt hn hs⟩

theorem cs_natBE_eq (bs : Bytes) : natBE bs = beVal bs := by
  unfold natBE beVal
  congr 1
  funext acc b
  rw [Nat.mul_comm]

/-- sanity of the independent reader: on every input it accepts exactly what the model of the Go
    decoder's `decodeTypedUint` accepts, with the same major type, argument and rest … -/
theorem cs_readHead_decodeHead (bs : Bytes) :
    (readHead bs).map (fun x => (x.1, x.2.2.1, x.2.2.2)) = decodeHead bs := by
  cases bs with
  | nil => rfl
  | cons b rest =>
    simp only [readHead, decodeHead, decodeArg, nfollow, argBytes]
    generalize b.toNat % 32 = ai
    by_cases h0 : ai < 24
    · simp [h0]
    · by_cases h1 : ai = 24
      · subst h1; by_cases hl : rest.length < 1 <;> simp [hl, cs_natBE_eq]
      · by_cases h2 : ai = 25
        · subst h2; by_cases hl : rest.length < 2 <;> simp [hl, cs_natBE_eq]
        · by_cases h3 : ai = 26
          · subst h3; by_cases hl : rest.length < 4 <;> simp [hl, cs_natBE_eq]
          · by_cases h4 : ai = 27
            · subst h4; by_cases hl : rest.length < 8 <;> simp [hl, cs_natBE_eq]
            · simp [h0, h1, h2, h3, h4]

/-- … hence exactly the definite-length heads of RFC 8949 (`Spec.Cbor.IsHead`, any width) -/
theorem cs_readHead_iff_isHead (bs : Bytes) (mt n : Nat) (r : Bytes) :
    (∃ ai, readHead bs = some (mt, ai, n, r)) ↔ ∃ h, IsHead h mt n ∧ bs = h ++ r := by
  have e := cs_readHead_decodeHead bs
  constructor
  · rintro ⟨ai, h⟩
    rw [h] at e
    exact isHead_of_decodeHead e.symm
  · rintro ⟨h, hh, rfl⟩
    rw [decodeHead_of_isHead hh r] at e
    cases hr : readHead (h ++ r) with
    | none => simp [hr] at e
    | some v =>
      obtain ⟨a, b, c, d⟩ := v
      simp [hr] at e
      obtain ⟨rfl, rfl, rfl⟩ := e
      exact ⟨b, rfl⟩

theorem cs_aiOf_lt (n : Nat) : aiOf n < 32 := by
  unfold aiOf; repeat' split
  all_goals omega

theorem cs_width_facts (n : Nat) (h1 : ¬ n < 24) (hn : n < 2 ^ 64) :
    ¬ aiOf n < 24 ∧ argBytes (aiOf n) = widthOf n ∧ widthOf n ≠ 0 ∧ n < 256 ^ widthOf n := by
  unfold aiOf widthOf argBytes
  by_cases h2 : n < 2 ^ 8
  · simp [h1, h2]
  · by_cases h3 : n < 2 ^ 16
    · simp [h1, h2, h3]
    · by_cases h4 : n < 2 ^ 32
      · simp [h1, h2, h3, h4]
      · simp [h1, h2, h3, h4]; omega

theorem cs_readHead_minHead (mt n : Nat) (hmt : mt < 8) (hn : n < 2 ^ 64) (r : Bytes) :
    readHead (minHead mt n ++ r) = some (mt, aiOf n, n, r) := by
  have hai := cs_aiOf_lt n
  have fb := first_byte mt (aiOf n) hmt hai
  unfold minHead
  simp only [List.cons_append, readHead, fb.1, fb.2]
  by_cases h1 : n < 24
  · have : aiOf n = n := by simp [aiOf, h1]
    have hw : widthOf n = 0 := by simp [widthOf, h1]
    simp [this, h1, hw, beBytes]
  · obtain ⟨f1, f2, f3, f4⟩ := cs_width_facts n h1 hn
    have hl : ¬ (beBytes (widthOf n) n ++ r).length < widthOf n := by simp
    have ht : (beBytes (widthOf n) n ++ r).take (widthOf n) = beBytes (widthOf n) n :=
      List.take_left' (beBytes_length _ n)
    have hd : (beBytes (widthOf n) n ++ r).drop (widthOf n) = r := List.drop_left' (beBytes_length _ n)
    rw [if_neg f1, f2, if_neg f3, if_neg hl, ht, hd, cs_natBE_eq, beVal_beBytes_of_lt f4]

theorem cs_readHead_length {bs : Bytes} {mt ai n : Nat} {rest : Bytes}
    (h : readHead bs = some (mt, ai, n, rest)) : rest.length < bs.length := by
  cases bs with
  | nil => simp [readHead] at h
  | cons b t =>
    simp only [readHead] at h
    by_cases h1 : b.toNat % 32 < 24
    · simp [h1] at h
      rw [← h.2.2.2]; simp
    · simp only [h1, if_false] at h
      generalize argBytes (b.toNat % 32) = k at h
      by_cases hk : k = 0
      · simp [hk] at h
      · by_cases hl : t.length < k
        · simp [hk, hl] at h
        · simp [hk, hl] at h
          rw [← h.2.2.2]; simp; omega

theorem cs_readToken_length {bs : Bytes} {t : Token} {rest : Bytes}
    (h : readToken bs = some (t, rest)) : rest.length < bs.length := by
  unfold readToken at h
  cases hh : readHead bs with
  | none => simp [hh] at h
  | some v =>
    obtain ⟨mt, ai, n, r⟩ := v
    have hl := cs_readHead_length hh
    simp only [hh] at h
    unfold readBody at h
    repeat' split at h
    all_goals first
      | (simp at h; done)
      | (simp at h; rw [← h.2]; first | exact hl | (simp; omega))

/-! ## lemmas: fuel -/

theorem cs_tokensAux_succ : ∀ (f : Nat) (bs : Bytes), bs.length ≤ f → tokensAux (f + 1) bs = tokensAux f bs
  | _, [], _ => by simp [tokensAux]
  | 0, _ :: _, h => by simp at h
  | f + 1, b :: t, h => by
    simp only [tokensAux]
    cases hr : readToken (b :: t) with
    | none => rfl
    | some v =>
      obtain ⟨tok, rest⟩ := v
      have hl := cs_readToken_length hr
      simp only [List.length_cons] at hl h
      simp only []
      rw [cs_tokensAux_succ f rest (by omega)]

theorem cs_tokensAux_fuel (bs : Bytes) : ∀ f, bs.length ≤ f → tokensAux f bs = tokens bs := by
  intro f hf
  induction f with
  | zero =>
    have : bs = [] := by cases bs <;> simp_all
    subst this; rfl
  | succ f ih =>
    by_cases h : bs.length ≤ f
    · rw [cs_tokensAux_succ f bs h, ih h]
    · have : bs.length = f + 1 := by omega
      unfold tokens; rw [this]

/-- one step of the tokenizer -/
theorem cs_tokens_step {bs : Bytes} {t : Token} {rest : Bytes} (h : readToken bs = some (t, rest)) :
    tokens bs = (tokens rest).map (t :: ·) := by
  have hl := cs_readToken_length h
  cases bs with
  | nil => simp at hl
  | cons b tl =>
    unfold tokens
    simp only [List.length_cons, tokensAux, h]
    rw [cs_tokensAux_fuel rest tl.length (by simpa using Nat.le_of_lt_succ hl)]
    rfl

/-! ## lemmas: reading back a re-encoded token -/

theorem cs_readToken_encodeToken (t : Token) (ht : tokOK t = true) (r : Bytes) :
    readToken (encodeToken t ++ r) = some (t, r) := by
  cases t with
  | uint n =>
    simp only [tokOK, decide_eq_true_eq] at ht
    simp [readToken, encodeToken, cs_readHead_minHead 0 n (by decide) ht r, readBody]
  | nint n =>
    simp only [tokOK, decide_eq_true_eq] at ht
    simp [readToken, encodeToken, cs_readHead_minHead 1 n (by decide) ht r, readBody]
  | bytes b =>
    simp only [tokOK, decide_eq_true_eq] at ht
    simp [readToken, encodeToken, List.append_assoc, cs_readHead_minHead 2 b.length (by decide) ht (b ++ r), readBody]
  | text s =>
    simp only [tokOK, decide_eq_true_eq] at ht
    simp [readToken, encodeToken, List.append_assoc, cs_readHead_minHead 3 s.length (by decide) ht (s ++ r), readBody]
  | array n =>
    simp only [tokOK, decide_eq_true_eq] at ht
    simp [readToken, encodeToken, cs_readHead_minHead 4 n (by decide) ht r, readBody]
  | map n =>
    simp only [tokOK, decide_eq_true_eq] at ht
    simp [readToken, encodeToken, cs_readHead_minHead 5 n (by decide) ht r, readBody]
  | tag n =>
    simp only [tokOK, decide_eq_true_eq] at ht
    simp [readToken, encodeToken, cs_readHead_minHead 6 n (by decide) ht r, readBody]
  | simple v =>
    simp only [tokOK, decide_eq_true_eq] at ht
    have : aiOf v ≤ 24 := by unfold aiOf; repeat' split
                             all_goals omega
    simp [readToken, encodeToken, cs_readHead_minHead 7 v (by decide) (by omega) r, readBody, this]
  | float ai bits => simp [tokOK] at ht

/-- the independent decoder inverts shortest-form encoding of any token list -/
theorem tokens_encodeTokens (ts : List Token) (h : ∀ t ∈ ts, tokOK t = true) :
    tokens (encodeTokens ts) = some ts := by
  induction ts with
  | nil => rfl
  | cons t ts ih =>
    have h1 := cs_readToken_encodeToken t (h t (by simp)) (encodeTokens ts)
    rw [encodeTokens, cs_tokens_step h1, ih (fun t' ht' => h t' (by simp [ht']))]
    rfl

theorem cs_encodeTokens_append (a b : List Token) : encodeTokens (a ++ b) = encodeTokens a ++ encodeTokens b := by
  induction a with
  | nil => rfl
  | cons t ts ih => simp [encodeTokens, ih]

/-! ## lemmas: lists -/

theorem cs_encodeTokens_flatten (ls : List (List Token)) :
    encodeTokens ls.flatten = (ls.map encodeTokens).flatten := by
  induction ls with
  | nil => rfl
  | cons l ls ih => simp [cs_encodeTokens_append, ih]

/-- the (key bytes, value bytes) pair of an entry -/
def entryBytes (e : List Call × List Call) : Entry := (run e.1, run e.2)
/-- the (key bytes, tokens) pair of an entry -/
def entryToksOf (e : List Call × List Call) : Bytes × List Token := (run e.1, expectedAcc e.1 ++ expectedAcc e.2)
/-- comparator on entries given as call sequences: bytewise order of the encoded keys -/
def callsLe (a b : List Call × List Call) : Bool := ble (run a.1) (run b.1)
/-- the entries in the order in which `EncodeMap` emits them -/
def sortCalls (es : List (List Call × List Call)) : List (List Call × List Call) := es.mergeSort callsLe

theorem cs_runEntries_map (es : List (List Call × List Call)) : runEntries es = es.map entryBytes := by
  induction es with
  | nil => rfl
  | cons e es ih => obtain ⟨k, v⟩ := e; simp [runEntries, entryBytes, ih]

theorem cs_entryToks_map (es : List (List Call × List Call)) : entryToks es = es.map entryToksOf := by
  induction es with
  | nil => rfl
  | cons e es ih => obtain ⟨k, v⟩ := e; simp [entryToks, entryToksOf, ih]

theorem cs_sortEntries_runEntries (es : List (List Call × List Call)) :
    sortEntries (runEntries es) = (sortCalls es).map entryBytes := by
  rw [cs_runEntries_map]
  exact (List.map_mergeSort (r := callsLe) (s := entryLe) (f := entryBytes) (fun _ _ _ _ => rfl)).symm

theorem cs_sort_entryToks (es : List (List Call × List Call)) :
    (entryToks es).mergeSort keyLe = (sortCalls es).map entryToksOf := by
  rw [cs_entryToks_map]
  exact (List.map_mergeSort (r := callsLe) (s := keyLe) (f := entryToksOf) (fun _ _ _ _ => rfl)).symm

theorem cs_sortCalls_perm (es : List (List Call × List Call)) : (sortCalls es).Perm es :=
  List.mergeSort_perm es callsLe

theorem cs_runEntries_keys (es : List (List Call × List Call)) :
    (runEntries es).map Prod.fst = es.map (fun e => run e.1) := by
  rw [cs_runEntries_map]; simp [entryBytes]

/-! ## which calls are refused -/

theorem cs_isAccepted_map (es : List (List Call × List Call)) :
    isAccepted (.map es) = true ↔ (es.map (fun e => run e.1)).Nodup := by
  rw [← cs_runEntries_keys, ← hasAdjDup_sort_iff]
  simp only [isAccepted, encodeCall, encodeMap]
  cases hasAdjDup (sortEntries (runEntries es)) <;> simp

theorem cs_emit_map (es : List (List Call × List Call)) (h : isAccepted (.map es) = true) :
    emit (.map es) = encodeHead 5 es.length ++
      ((sortCalls es).map fun e => run e.1 ++ run e.2).flatten := by
  have hd : hasAdjDup (sortEntries (runEntries es)) = false := by
    rw [hasAdjDup_sort_iff, cs_runEntries_keys]; exact (cs_isAccepted_map es).mp h
  simp only [emit, encodeCall, encodeMap, hd, Bool.false_eq_true, if_false, encodeMapHeader]
  rw [cs_sortEntries_runEntries, cs_runEntries_map]
  simp [entryBytes, Function.comp_def]

theorem cs_emit_refused (c : Call) (h : isAccepted c = false) : emit c = [] := by
  unfold isAccepted at h; unfold emit
  cases he : encodeCall c <;> simp_all

/-! ## per-call facts, by mutual structural recursion over the nested call structure -/

theorem cs_emit_flat (c : Call) (hm : ∀ es, c ≠ .map es) :
    emit c = if isAccepted c then encodeTokens (expectedCall c) else [] := by
  cases c with
  | uint n => simp [emit, isAccepted, encodeCall, expectedCall, encodeTokens, encodeToken, cs_minHead_eq, encodeUint]
  | int z =>
    simp only [emit, isAccepted, encodeCall, expectedCall, if_true, encodeInt]
    by_cases h : 0 ≤ z
    · simp [h, encodeTokens, encodeToken, cs_minHead_eq]
    · have : (-1 - z).toNat = (-z).toNat - 1 := by omega
      simp [h, encodeTokens, encodeToken, cs_minHead_eq, this]
  | bytes b => simp [emit, isAccepted, encodeCall, expectedCall, encodeTokens, encodeToken, cs_minHead_eq, encodeBytes]
  | text s =>
    simp only [emit, isAccepted, encodeCall, expectedCall, encodeText]
    by_cases h : utf8Valid s = true
    · simp [h, encodeTokens, encodeToken, cs_minHead_eq]
    · simp [h]
  | arrayHeader n =>
    simp [emit, isAccepted, encodeCall, expectedCall, encodeTokens, encodeToken, cs_minHead_eq, encodeArrayHeader]
  | bool b => cases b <;> decide
  | map es => exact absurd rfl (hm es)

theorem cs_expectedCall_ok_flat (c : Call) (hm : ∀ es, c ≠ .map es) (hr : callInRange c = true) :
    ∀ t ∈ expectedCall c, tokOK t = true := by
  cases c with
  | uint n => simpa [expectedCall, tokOK, callInRange] using hr
  | int z =>
    simp only [callInRange, Bool.and_eq_true, decide_eq_true_eq] at hr
    by_cases h : 0 ≤ z
    · simp [expectedCall, h, tokOK]; omega
    · simp [expectedCall, h, tokOK]; omega
  | bytes b => simpa [expectedCall, tokOK, callInRange] using hr
  | text s => simpa [expectedCall, tokOK, callInRange] using hr
  | arrayHeader n => simpa [expectedCall, tokOK, callInRange] using hr
  | bool b => cases b <;> simp [expectedCall, tokOK]
  | map es => exact absurd rfl (hm es)

/-- what is proved about a sequence: its stream is the shortest-form encoding of its tokens -/
def SeqOK (cs : List Call) : Prop :=
  run cs = encodeTokens (expectedAcc cs) ∧ ∀ t ∈ expectedAcc cs, tokOK t = true

def CallOK (c : Call) : Prop :=
  (emit c = if isAccepted c then encodeTokens (expectedCall c) else []) ∧ ∀ t ∈ expectedCall c, tokOK t = true

theorem cs_callOK_map (es : List (List Call × List Call)) (hl : es.length < 2 ^ 64)
    (ih : ∀ e ∈ es, SeqOK e.1 ∧ SeqOK e.2) : CallOK (.map es) := by
  have hmem : ∀ e ∈ sortCalls es, e ∈ es := fun e he => (cs_sortCalls_perm es).subset he
  constructor
  · by_cases ha : isAccepted (.map es) = true
    · rw [cs_emit_map es ha]
      simp only [ha, if_true, expectedCall, encodeTokens, encodeToken, cs_minHead_eq]
      congr 1
      rw [cs_sort_entryToks, cs_encodeTokens_flatten, List.map_map, List.map_map]
      congr 1
      apply List.map_congr_left
      intro e he
      obtain ⟨⟨h1, _⟩, ⟨h2, _⟩⟩ := ih e (hmem e he)
      simp only [Function.comp_def, entryToksOf, cs_encodeTokens_append]
      rw [h1, h2]
    · have ha' : isAccepted (.map es) = false := by simpa using ha
      rw [cs_emit_refused _ ha']; simp [ha']
  · intro t ht
    simp only [expectedCall, List.mem_cons] at ht
    rcases ht with rfl | ht
    · simpa [tokOK] using hl
    · rw [cs_sort_entryToks] at ht
      simp only [List.map_map, List.mem_flatten, List.mem_map, Function.comp_def] at ht
      obtain ⟨l, ⟨e, he, rfl⟩, htl⟩ := ht
      obtain ⟨⟨_, h1⟩, ⟨_, h2⟩⟩ := ih e (hmem e he)
      simp only [entryToksOf, List.mem_append] at htl
      rcases htl with h | h
      · exact h1 t h
      · exact h2 t h

mutual
theorem cs_callOK : ∀ (c : Call), callInRange c = true → CallOK c
  | .uint n, hr => ⟨cs_emit_flat _ (by simp), cs_expectedCall_ok_flat _ (by simp) hr⟩
  | .int z, hr => ⟨cs_emit_flat _ (by simp), cs_expectedCall_ok_flat _ (by simp) hr⟩
  | .bytes b, hr => ⟨cs_emit_flat _ (by simp), cs_expectedCall_ok_flat _ (by simp) hr⟩
  | .text s, hr => ⟨cs_emit_flat _ (by simp), cs_expectedCall_ok_flat _ (by simp) hr⟩
  | .arrayHeader n, hr => ⟨cs_emit_flat _ (by simp), cs_expectedCall_ok_flat _ (by simp) hr⟩
  | .bool b, hr => ⟨cs_emit_flat _ (by simp), cs_expectedCall_ok_flat _ (by simp) hr⟩
  | .map es, hr => by
    simp only [callInRange, Bool.and_eq_true, decide_eq_true_eq] at hr
    exact cs_callOK_map es hr.1 (cs_entriesOK es hr.2)
theorem cs_seqOK : ∀ (cs : List Call), seqInRange cs = true → SeqOK cs
  | [], _ => ⟨rfl, by simp [expectedAcc]⟩
  | c :: cs, hr => by
    simp only [seqInRange, Bool.and_eq_true] at hr
    obtain ⟨h1, h2⟩ := cs_callOK c hr.1
    obtain ⟨h3, h4⟩ := cs_seqOK cs hr.2
    have hrun : run (c :: cs) = emit c ++ run cs := rfl
    constructor
    · rw [hrun, h1, h3, expectedAcc, cs_encodeTokens_append]
      cases isAccepted c <;> simp [encodeTokens]
    · intro t ht
      simp only [expectedAcc, List.mem_append] at ht
      rcases ht with ht | ht
      · by_cases ha : isAccepted c = true
        · simp only [ha, if_true] at ht; exact h2 t ht
        · simp [ha] at ht
      · exact h4 t ht
theorem cs_entriesOK : ∀ (es : List (List Call × List Call)), entriesInRange es = true →
    ∀ e ∈ es, SeqOK e.1 ∧ SeqOK e.2
  | [], _ => by simp
  | (k, v) :: es, hr => by
    simp only [entriesInRange, Bool.and_eq_true] at hr
    intro e he
    rcases List.mem_cons.mp he with rfl | he
    · exact ⟨cs_seqOK k hr.1.1, cs_seqOK v hr.1.2⟩
    · exact cs_entriesOK es hr.2 e he
end

theorem cs_expectedAcc_eq (cs : List Call) : expectedAcc cs = expected (accepted cs) := by
  unfold accepted
  induction cs with
  | nil => rfl
  | cons c cs ih =>
    by_cases ha : isAccepted c = true
    · simp [expectedAcc, ha, expected, ih]
    · simp [expectedAcc, ha, ih]

/-! ## main theorems -/

/-- **run_shortest**: the stream is byte for byte the shortest-head encoding (`minHead`, the unique
    `Spec.Cbor.ShortestHead`: `cs_minHead_shortest`) of the tokens the accepted calls stand for;
    refused calls leave no trace.  Holds at every nesting depth (keys and values of maps). -/
theorem run_shortest (cs : List Call) (hr : InRange cs) : run cs = encodeTokens (expected (accepted cs)) := by
  rw [← cs_expectedAcc_eq]; exact (cs_seqOK cs hr).1

theorem cs_expected_ok (cs : List Call) (hr : InRange cs) : ∀ t ∈ expected (accepted cs), tokOK t = true := by
  rw [← cs_expectedAcc_eq]; exact (cs_seqOK cs hr).2

/-- **run_tokens**: an independent decoder reads back exactly the accepted values, in order. -/
theorem run_tokens (cs : List Call) (hr : InRange cs) : tokens (run cs) = some (expected (accepted cs)) := by
  rw [run_shortest cs hr]
  exact tokens_encodeTokens _ (cs_expected_ok cs hr)

/-! ## reading of the map case without the auxiliary `entryToks` -/

/-- a map of `n` entries stands for `map n` followed by key₁ value₁ key₂ value₂ …, where the entries
    are taken in the order `sortCalls` (characterised by `sortCalls_strict` / `sortCalls_unique`) and
    each key / value contributes the tokens of *its* accepted calls -/
theorem expectedCall_map (es : List (List Call × List Call)) :
    expectedCall (.map es) = .map es.length ::
      ((sortCalls es).map fun e => expected (accepted e.1) ++ expected (accepted e.2)).flatten := by
  simp only [expectedCall]
  rw [cs_sort_entryToks]
  simp [entryToksOf, cs_expectedAcc_eq, Function.comp_def]

/-- the emitted entries are a permutation of the caller's entries … -/
theorem sortCalls_perm (es : List (List Call × List Call)) : (sortCalls es).Perm es := cs_sortCalls_perm es

/-- … in strictly ascending bytewise lexicographic order (RFC 8949 4.2.1, `Spec.Cbor.LexLt`) of the
    encoded keys, when the map is accepted … -/
theorem sortCalls_strict (es : List (List Call × List Call)) (h : isAccepted (.map es) = true) :
    (sortCalls es).Pairwise (fun a b => LexLt (run a.1) (run b.1)) := by
  have hd : hasAdjDup (sortEntries (runEntries es)) = false := by
    rw [hasAdjDup_sort_iff, cs_runEntries_keys]; exact (cs_isAccepted_map es).mp h
  have := strictAsc_of_sorted_noAdjDup _ (sortEntries_sorted (runEntries es)) hd
  rw [cs_sortEntries_runEntries] at this
  unfold StrictAsc at this
  rw [List.pairwise_map] at this
  exact this.imp (fun h => Det.blt_iff_lexLt.mp h)

theorem cs_inj_of_nodup_map {α β : Type} (f : α → β) : ∀ (l : List α), (l.map f).Nodup →
    ∀ a ∈ l, ∀ b ∈ l, f a = f b → a = b
  | [], _, _, h, _, _, _ => by simp at h
  | x :: xs, hnd, a, ha, b, hb, hk => by
    simp only [List.map_cons, List.nodup_cons, List.mem_map, not_exists, not_and] at hnd
    simp only [List.mem_cons] at ha hb
    rcases ha with rfl | ha <;> rcases hb with rfl | hb
    · rfl
    · exact absurd hk.symm (hnd.1 b hb)
    · exact absurd hk (hnd.1 a ha)
    · exact cs_inj_of_nodup_map f xs hnd.2 a ha b hb hk

/-- … and that order is the only one: any arrangement of the entries that is ascending in the encoded
    keys is the emitted one (so nothing depends on the sorting algorithm of the model or of Go). -/
theorem sortCalls_unique (es l : List (List Call × List Call)) (h : isAccepted (.map es) = true)
    (hp : l.Perm es) (hs : l.Pairwise (fun a b => ble (run a.1) (run b.1) = true)) : l = sortCalls es := by
  have hnd := (cs_isAccepted_map es).mp h
  have hs2 : (sortCalls es).Pairwise (fun a b => callsLe a b = true) :=
    List.pairwise_mergeSort (le := callsLe) (fun _ _ _ h1 h2 => ble_trans h1 h2)
      (fun a b => by simpa [callsLe, Bool.or_eq_true] using ble_total (run a.1) (run b.1)) es
  apply List.Perm.eq_of_pairwise (le := fun a b => callsLe a b = true) _ hs hs2
    (hp.trans (cs_sortCalls_perm es).symm)
  intro a b ha hb hab hba
  exact cs_inj_of_nodup_map (fun e => run e.1) es hnd a (hp.subset ha)
    b ((cs_sortCalls_perm es).subset hb) (ble_antisymm (a := run a.1) (b := run b.1) hab hba)

/-! ## refusal -/

theorem cs_not_nodup_iff {α β : Type} (f : α → β) (l : List α) :
    ¬ (l.map f).Nodup ↔ ∃ i j, ∃ (hi : i < l.length) (hj : j < l.length), i < j ∧ f l[i] = f l[j] := by
  unfold List.Nodup
  rw [List.pairwise_map, List.pairwise_iff_getElem]
  constructor
  · intro h
    apply Classical.byContradiction
    intro hn
    exact h (fun i j hi hj hij heq => hn ⟨i, j, hi, hj, hij, heq⟩)
  · rintro ⟨i, j, hi, hj, hij, heq⟩ h
    exact h i j hi hj hij heq

/-- the error a refused call returns, and exactly when -/
theorem encodeCall_error_iff (c : Call) (e : EncErr) : encodeCall c = .error e ↔
    (e = .invalidUtf8 ∧ ∃ s, c = .text s ∧ utf8Valid s = false) ∨
    (e = .duplicatedKey ∧ ∃ es, c = .map es ∧ ¬ (es.map fun en => run en.1).Nodup) := by
  cases c with
  | text s =>
    simp only [encodeCall, encodeText]
    by_cases h : utf8Valid s = true
    · simp [h]
    · simp [h]; exact eq_comm
  | map es =>
    have h6 := C11.encodeMap_dup_iff (runEntries es)
    rw [cs_runEntries_keys] at h6
    simp only [encodeCall]
    constructor
    · intro h
      have he : e = .duplicatedKey := by
        unfold encodeMap at h
        simp only at h
        split at h
        · simp at h; exact h.symm
        · simp at h
      subst he
      exact Or.inr ⟨rfl, es, rfl, h6.mp h⟩
    · rintro (⟨_, s, hc, _⟩ | ⟨rfl, es', hc, hn⟩)
      · simp at hc
      · simp only [Call.map.injEq] at hc; subst hc; exact h6.mpr hn
  | uint n => simp [encodeCall]
  | int z => simp [encodeCall]
  | bytes b => simp [encodeCall]
  | arrayHeader n => simp [encodeCall]
  | bool b => simp [encodeCall]

theorem cs_isAccepted_false_iff (c : Call) : isAccepted c = false ↔ ∃ e, encodeCall c = .error e := by
  unfold isAccepted
  cases encodeCall c <;> simp

/-- **run_refuses_iff**: a call is refused iff it is a `text` with invalid UTF-8 or a `map` two of
    whose keys (at different positions) have equal encodings. -/
theorem run_refuses_iff (c : Call) : isAccepted c = false ↔
    (∃ s, c = .text s ∧ utf8Valid s = false) ∨
    (∃ es, c = .map es ∧ ∃ i j, ∃ (hi : i < es.length) (hj : j < es.length), i < j ∧ run es[i].1 = run es[j].1) := by
  rw [cs_isAccepted_false_iff]
  constructor
  · rintro ⟨e, he⟩
    rcases (encodeCall_error_iff c e).mp he with ⟨_, h⟩ | ⟨_, es, hc, hn⟩
    · exact Or.inl h
    · exact Or.inr ⟨es, hc, (cs_not_nodup_iff _ es).mp hn⟩
  · rintro (h | ⟨es, hc, hn⟩)
    · exact ⟨_, (encodeCall_error_iff c _).mpr (Or.inl ⟨rfl, h⟩)⟩
    · exact ⟨_, (encodeCall_error_iff c _).mpr (Or.inr ⟨rfl, es, hc, (cs_not_nodup_iff _ es).mpr hn⟩)⟩

/-- a map whose keys have pairwise different encodings is never refused, in whatever order the
    caller supplies the entries -/
theorem map_accepted_of_distinct (es : List (List Call × List Call))
    (h : (es.map fun e => run e.1).Nodup) : isAccepted (.map es) = true := (cs_isAccepted_map es).mpr h

/-- the result of a map call (bytes or error) does not depend on the order of the entries -/
theorem encodeCall_map_perm (es₁ es₂ : List (List Call × List Call)) (hp : es₁.Perm es₂) :
    encodeCall (.map es₁) = encodeCall (.map es₂) := by
  simp only [encodeCall]
  apply C11.encodeMap_perm
  rw [cs_runEntries_map, cs_runEntries_map]
  exact hp.map _

theorem cs_run_cons (c : Call) (cs : List Call) : run (c :: cs) = emit c ++ run cs := rfl

theorem cs_run_append (a b : List Call) : run (a ++ b) = run a ++ run b := by
  induction a with
  | nil => rfl
  | cons c cs ih => simp [cs_run_cons, ih]

/-- … nor does the whole stream, wherever the map call stands in the sequence -/
theorem run_map_perm (pre post : List Call) (es₁ es₂ : List (List Call × List Call)) (hp : es₁.Perm es₂) :
    run (pre ++ .map es₁ :: post) = run (pre ++ .map es₂ :: post) := by
  simp only [cs_run_append, cs_run_cons, emit, encodeCall_map_perm es₁ es₂ hp]

/-- a refused call leaves no trace in the stream -/
theorem run_refused_no_trace (pre post : List Call) (c : Call) (h : isAccepted c = false) :
    run (pre ++ c :: post) = run (pre ++ post) := by
  simp [cs_run_append, cs_run_cons, cs_emit_refused c h]

theorem run_accepted (cs : List Call) : run (accepted cs) = run cs := by
  unfold accepted
  induction cs with
  | nil => rfl
  | cons c cs ih =>
    by_cases ha : isAccepted c = true
    · simp [List.filter_cons, ha, cs_run_cons, ih]
    · have ha' : isAccepted c = false := by simpa using ha
      simp [List.filter_cons, ha', cs_run_cons, ih, cs_emit_refused c ha']

/-! ## text strings in the stream are valid UTF-8 (at every depth) -/

mutual
theorem cs_textOK_call : ∀ (c : Call), isAccepted c = true → ∀ s, Token.text s ∈ expectedCall c → utf8Valid s = true
  | .uint n, _, s, h => by simp [expectedCall] at h
  | .int z, _, s, h => by
    simp only [expectedCall] at h
    split at h <;> simp at h
  | .bytes b, _, s, h => by simp [expectedCall] at h
  | .text s', ha, s, h => by
    simp [expectedCall] at h
    subst h
    simp only [isAccepted, encodeCall, encodeText] at ha
    by_cases hu : utf8Valid s = true
    · exact hu
    · simp [hu] at ha
  | .arrayHeader n, _, s, h => by simp [expectedCall] at h
  | .bool b, _, s, h => by simp [expectedCall] at h
  | .map es, _, s, h => by
    simp only [expectedCall, List.mem_cons] at h
    rcases h with h | h
    · simp at h
    · rw [cs_sort_entryToks] at h
      simp only [List.map_map, List.mem_flatten, List.mem_map, Function.comp_def] at h
      obtain ⟨l, ⟨e, he, rfl⟩, hl⟩ := h
      exact cs_textOK_entries es e ((cs_sortCalls_perm es).subset he) s hl
theorem cs_textOK_seq : ∀ (cs : List Call) s, Token.text s ∈ expectedAcc cs → utf8Valid s = true
  | [], s, h => by simp [expectedAcc] at h
  | c :: cs, s, h => by
    simp only [expectedAcc, List.mem_append] at h
    rcases h with h | h
    · by_cases ha : isAccepted c = true
      · simp only [ha, if_true] at h; exact cs_textOK_call c ha s h
      · simp [ha] at h
    · exact cs_textOK_seq cs s h
theorem cs_textOK_entries : ∀ (es : List (List Call × List Call)), ∀ e ∈ es, ∀ s,
    Token.text s ∈ (entryToksOf e).2 → utf8Valid s = true
  | [], e, he, _, _ => by simp at he
  | (k, v) :: es, e, he, s, h => by
    rcases List.mem_cons.mp he with rfl | he
    · simp only [entryToksOf, List.mem_append] at h
      rcases h with h | h
      · exact cs_textOK_seq k s h
      · exact cs_textOK_seq v s h
    · exact cs_textOK_entries es e he s h
end

/-- **run_text_valid**: every text string the decoder reads back is valid UTF-8 -/
theorem run_text_valid (cs : List Call) (hr : InRange cs) (ts : List Token) (h : tokens (run cs) = some ts)
    (s : Bytes) (hs : Token.text s ∈ ts) : utf8Valid s = true := by
  rw [run_tokens cs hr, ← cs_expectedAcc_eq] at h
  simp at h; subst h
  exact cs_textOK_seq cs s hs

/-! ## `EncodeMap` with any correct sort; a kernel-evaluable sort for the examples -/

/-- whichever correct sort is used (`sort.Slice` in Go, `List.mergeSort` in the model, insertion sort
    below), `EncodeMap` returns the same bytes, or the same error -/
theorem cs_encodeMap_anySort (srt : List Entry → List Entry) (hp : ∀ l, (srt l).Perm l)
    (hs : ∀ l, (srt l).Pairwise (fun a b => entryLe a b = true)) (es : List Entry) :
    encodeMap es = if hasAdjDup (srt es) then .error .duplicatedKey
      else .ok (encodeMapHeader es.length ++ ((srt es).map fun e => e.1 ++ e.2).flatten) := by
  by_cases hnd : (es.map Prod.fst).Nodup
  · have he : srt es = sortEntries es := C11.encodeMap_sort_independent es (srt es) (hp es) hnd (hs es)
    rw [he]; rfl
  · rw [(C11.encodeMap_dup_iff es).mpr hnd]
    cases hd : hasAdjDup (srt es) with
    | true => rfl
    | false =>
      exfalso
      apply hnd
      have := nodup_keys_of_strictAsc _ (strictAsc_of_sorted_noAdjDup _ (hs es) hd)
      exact (((hp es).map Prod.fst).nodup_iff).mp this

def insertE (e : Entry) : List Entry → List Entry
  | [] => [e]
  | x :: xs => if entryLe e x then e :: x :: xs else x :: insertE e xs

def isort : List Entry → List Entry
  | [] => []
  | e :: es => insertE e (isort es)

theorem cs_insertE_perm (e : Entry) : ∀ l, (insertE e l).Perm (e :: l)
  | [] => List.Perm.refl _
  | x :: xs => by
    unfold insertE
    by_cases h : entryLe e x = true
    · simp [h]
    · simp only [h]
      exact ((cs_insertE_perm e xs).cons x).trans (List.Perm.swap e x xs)

theorem cs_isort_perm : ∀ l, (isort l).Perm l
  | [] => List.Perm.refl _
  | e :: es => (cs_insertE_perm e (isort es)).trans ((cs_isort_perm es).cons e)

theorem cs_insertE_sorted (e : Entry) : ∀ l, l.Pairwise (fun a b => entryLe a b = true) →
    (insertE e l).Pairwise (fun a b => entryLe a b = true)
  | [], _ => by simp [insertE]
  | x :: xs, h => by
    have h' := List.pairwise_cons.mp h
    unfold insertE
    by_cases hle : entryLe e x = true
    · simp only [hle, if_true]
      refine List.pairwise_cons.mpr ⟨?_, h⟩
      intro y hy
      rcases List.mem_cons.mp hy with rfl | hy
      · exact hle
      · exact entryLe_trans _ _ _ hle (h'.1 y hy)
    · simp only [hle]
      refine List.pairwise_cons.mpr ⟨?_, cs_insertE_sorted e xs h'.2⟩
      intro y hy
      rcases List.mem_cons.mp ((cs_insertE_perm e xs).subset hy) with rfl | hy
      · have := entryLe_total y x
        simpa [hle] using this
      · exact h'.1 y hy

theorem cs_isort_sorted : ∀ l, (isort l).Pairwise (fun a b => entryLe a b = true)
  | [] => List.Pairwise.nil
  | e :: es => cs_insertE_sorted e _ (cs_isort_sorted es)

/-- `encodeMap` with insertion sort in place of merge sort: the kernel can evaluate this one
    (`List.mergeSort` is defined by well-founded recursion and does not reduce) -/
def encodeMapI (es : List Entry) : Except EncErr Bytes :=
  if hasAdjDup (isort es) then .error .duplicatedKey
  else .ok (encodeMapHeader es.length ++ ((isort es).map fun e => e.1 ++ e.2).flatten)

theorem cs_encodeMap_isort (es : List Entry) : encodeMap es = encodeMapI es :=
  cs_encodeMap_anySort isort cs_isort_perm cs_isort_sorted es

mutual
def encodeCallI : Call → Except EncErr Bytes
  | .uint n => .ok (encodeUint n)
  | .int z => .ok (encodeInt z)
  | .bytes b => .ok (encodeBytes b)
  | .text s => encodeText s
  | .arrayHeader n => .ok (encodeArrayHeader n)
  | .bool b => .ok (encodeBool b)
  | .map es => encodeMapI (runEntriesI es)
def runI : List Call → Bytes
  | [] => []
  | c :: cs => (match encodeCallI c with | .ok bs => bs | .error _ => []) ++ runI cs
def runEntriesI : List (List Call × List Call) → List Entry
  | [] => []
  | (k, v) :: es => (runI k, runI v) :: runEntriesI es
end

mutual
theorem cs_encodeCallI_eq : ∀ c, encodeCallI c = encodeCall c
  | .uint _ | .int _ | .bytes _ | .text _ | .arrayHeader _ | .bool _ => rfl
  | .map es => by rw [encodeCallI, encodeCall, cs_runEntriesI_eq es, cs_encodeMap_isort]
theorem cs_runI_eq : ∀ cs, runI cs = run cs
  | [] => rfl
  | c :: cs => by rw [runI, run, cs_encodeCallI_eq c, cs_runI_eq cs]; rfl
theorem cs_runEntriesI_eq : ∀ es, runEntriesI es = runEntries es
  | [] => rfl
  | (k, v) :: es => by rw [runEntriesI, runEntries, cs_runI_eq k, cs_runI_eq v, cs_runEntriesI_eq es]
end

theorem cs_isAccepted_eq (c : Call) :
    isAccepted c = (match encodeCallI c with | .ok _ => true | .error _ => false) := by
  rw [cs_encodeCallI_eq]; rfl

/-! ## non-vacuity: a concrete sequence -/

def dupMap : Call := .map [([.text [0x62]], [.uint 1]), ([.text [0x62]], [.uint 2])]

def demo : List Call :=
  [.uint 23, .uint 24, .uint 255, .uint 256, .uint 65535, .uint 65536, .uint (2 ^ 32), .uint (2 ^ 64 - 1),
   .text [0xff],                       -- refused: not UTF-8
   .int (-1), .int (-24), .int (-25), .int (-(2 : Int) ^ 63),
   dupMap,                             -- refused: two keys "b"
   .arrayHeader 2,
   .map [ ([.text [0x62]],             -- key "b" supplied before key "a"
           [.map [ ([.uint 2], [.bool true]),                        -- nested map, keys 2 then 1
                   ([.uint 1], [.text [0xff], .bool false]) ]]),     -- a refused call inside a value
          ([.text [0x61]], [.bytes [1, 2]]) ],
   .bool true]

example : InRange demo := by decide

def demoBytes : Bytes :=
  [0x17, 0x18, 24, 0x18, 255, 0x19, 1, 0, 0x19, 255, 255, 0x1a, 0, 1, 0, 0, 0x1b, 0, 0, 0, 1, 0, 0, 0, 0,
   0x1b, 255, 255, 255, 255, 255, 255, 255, 255,                  -- 23 … 2^64-1, each at its boundary width
   0x20, 0x37, 0x38, 24, 0x3b, 127, 255, 255, 255, 255, 255, 255, 255,   -- -1, -24, -25, -2^63
   0x82,                                                          -- array(2); nothing from the two refused calls
   0xa2, 0x61, 0x61, 0x42, 1, 2,                                  -- map(2): "a" ↦ h'0102' first …
   0x61, 0x62, 0xa2, 1, 0xf4, 2, 0xf5,                            -- … then "b" ↦ {1: false, 2: true}
   0xf5]

def demoTokens : List Token :=
  [.uint 23, .uint 24, .uint 255, .uint 256, .uint 65535, .uint 65536, .uint (2 ^ 32), .uint (2 ^ 64 - 1),
   .nint 0, .nint 23, .nint 24, .nint (2 ^ 63 - 1),
   .array 2,
   .map 2, .text [0x61], .bytes [1, 2], .text [0x62], .map 2, .uint 1, .simple 20, .uint 2, .simple 21,
   .simple 21]

theorem demo_run : run demo = demoBytes := by rw [← cs_runI_eq]; decide +kernel

theorem demo_tokens : tokens (run demo) = some demoTokens := by rw [demo_run]; decide +kernel

/-- which calls of `demo` are accepted: all but the text at index 8 and the map at index 13 -/
theorem demo_accepted : demo.map isAccepted =
    [true, true, true, true, true, true, true, true, false, true, true, true, true, false, true, true, true] := by
  have : isAccepted = fun c => (match encodeCallI c with | .ok _ => true | .error _ => false) :=
    funext cs_isAccepted_eq
  rw [this]; decide +kernel

/-- the general theorem applied to the concrete sequence gives the concrete token list -/
theorem demo_expected : expected (accepted demo) = demoTokens :=
  Option.some.inj ((run_tokens demo (by decide)).symm.trans demo_tokens)

example : encodeTokens demoTokens = demoBytes := by decide +kernel
example : run demo = encodeTokens demoTokens := by rw [← demo_expected]; exact run_shortest demo (by decide)

example : encodeCall (.text [0xff]) = .error .invalidUtf8 :=
  (encodeCall_error_iff _ _).mpr (Or.inl ⟨rfl, _, rfl, by decide +kernel⟩)
example : encodeCall dupMap = .error .duplicatedKey :=
  (encodeCall_error_iff _ _).mpr (Or.inr ⟨rfl, _, rfl, by decide +kernel⟩)

/-- the tokenizer does not insist on shortest heads (that is `run_shortest`'s job) and rejects junk -/
example : tokens [0x18, 5, 0x19, 0, 5] = some [.uint 5, .uint 5] := by decide
example : tokens [0x1c] = none := by decide
example : tokens [0x43, 1, 2] = none := by decide
example : tokens [0xbf, 0xff] = none := by decide        -- indefinite length


end WebPkg.CborSeq
