import WebPkg.Proofs.Cbor
/-
  C12 — CBOR decoder accepts only complete well-formed items, with exact values.
  Model: Model/Cbor.lean (decoder.go after fixes F2, F3). Spec: Spec/Cbor.lean (RFC 8949 heads/strings).
-/
namespace WebPkg.C12
open WebPkg.Cbor WebPkg.Spec.Cbor

/-- T1a (soundness, heads): `DecodeUint` / `DecodeArrayHeader` / `DecodeMapHeader` (t = 0, 4, 5) succeed
    only on a definite-length RFC head of the requested major type, return its argument and consume
    exactly the head. -/
theorem decodeOfType_sound (t : Nat) (bs rest : Bytes) (n : Nat) (h : decodeOfType t bs = some (n, rest)) :
    ∃ hd, IsHead hd t n ∧ bs = hd ++ rest := Cbor.decodeOfType_sound h

/-- T1b (soundness, strings): `DecodeByteString` (t = 2) succeeds only on a complete definite-length
    string item, returns its content and consumes exactly the item. -/
theorem decodeBytes_sound (bs v rest : Bytes) (h : decodeByteString bs = some (v, rest)) :
    ∃ item, IsString 2 item v ∧ bs = item ++ rest := Cbor.decodeBytesOfType_sound h

/-- T1c: `DecodeTextString` additionally only returns valid UTF-8. -/
theorem decodeText_sound (bs v rest : Bytes) (h : decodeTextString bs = some (v, rest)) :
    (∃ item, IsString 3 item v ∧ bs = item ++ rest) ∧ utf8Valid v = true := by
  unfold decodeTextString at h
  cases hd : decodeBytesOfType 3 bs with
  | none => simp [hd] at h
  | some p =>
    obtain ⟨s, r⟩ := p
    simp only [hd] at h
    by_cases hu : utf8Valid s = true
    · simp [hu] at h
      obtain ⟨rfl, rfl⟩ := h
      exact ⟨Cbor.decodeBytesOfType_sound hd, hu⟩
    · simp [hu] at h

/-- T2 (completeness): every RFC head of the requested type — shortest or not — is accepted with its
    argument; every complete string item is accepted with its content (so: succeeds **iff**). -/
theorem decodeOfType_complete (t n : Nat) (hd : Bytes) (h : IsHead hd t n) (rest : Bytes) :
    decodeOfType t (hd ++ rest) = some (n, rest) := Cbor.decodeOfType_complete h rest

theorem decodeBytes_complete (item v : Bytes) (h : IsString 2 item v) (hl : v.length < 2 ^ 63) (rest : Bytes) :
    decodeByteString (item ++ rest) = some (v, rest) := Cbor.decodeBytesOfType_complete h hl rest

theorem decodeText_complete (item v : Bytes) (h : IsString 3 item v) (hl : v.length < 2 ^ 63) (hu : utf8Valid v = true)
    (rest : Bytes) : decodeTextString (item ++ rest) = some (v, rest) := by
  simp [decodeTextString, Cbor.decodeBytesOfType_complete h hl rest, hu]

/-- T3a: reserved (28..30) and indefinite-length (31) heads are errors for every decode call. -/
theorem reserved_rejected (b : UInt8) (rest : Bytes) (h : 28 ≤ b.toNat % 32) : decodeHead (b :: rest) = none := by
  have : b.toNat % 32 < 32 := Nat.mod_lt _ (by decide)
  simp only [decodeHead, decodeArg, nfollow]
  have h1 : ¬ b.toNat % 32 < 24 := by omega
  have h2 : b.toNat % 32 ≠ 24 := by omega
  have h3 : b.toNat % 32 ≠ 25 := by omega
  have h4 : b.toNat % 32 ≠ 26 := by omega
  have h5 : b.toNat % 32 ≠ 27 := by omega
  simp [h1, h2, h3, h4, h5]

/-- T3b: an item of another major type is an error. -/
theorem wrong_type_rejected (t mt n : Nat) (hd : Bytes) (h : IsHead hd mt n) (hne : mt ≠ t) (rest : Bytes) :
    decodeOfType t (hd ++ rest) = none := Cbor.decodeOfType_wrong_type h hne rest

/-- T3c: every proper prefix of a string item (truncation anywhere, also inside the head, and hence
    every declared length exceeding the remaining input) is an error. -/
theorem truncated_rejected (t : Nat) (item v : Bytes) (h : IsString t item v) (k : Nat) (hk : k < item.length) :
    decodeBytesOfType t (item.take k) = none := Cbor.decodeBytesOfType_truncated h k hk

/-- T3d: invalid UTF-8 content is an error for `DecodeTextString`. -/
theorem invalid_utf8_rejected (item v : Bytes) (h : IsString 3 item v) (hl : v.length < 2 ^ 63)
    (hu : utf8Valid v = false) (rest : Bytes) : decodeTextString (item ++ rest) = none := by
  simp [decodeTextString, Cbor.decodeBytesOfType_complete h hl rest, hu]

/-- T4 (round trip with the encoder): decoding what the encoder produced returns the original value
    and leaves exactly the bytes that followed. -/
theorem roundtrip_uint (n : Nat) (hn : n < 2 ^ 64) (r : Bytes) : decodeUint (encodeUint n ++ r) = some (n, r) :=
  Cbor.decodeOfType_complete (encodeHead_isHead 0 n (by decide) hn) r

theorem roundtrip_arrayHeader (n : Nat) (hn : n < 2 ^ 64) (r : Bytes) :
    decodeArrayHeader (encodeArrayHeader n ++ r) = some (n, r) :=
  Cbor.decodeOfType_complete (encodeHead_isHead 4 n (by decide) hn) r

theorem roundtrip_mapHeader (n : Nat) (hn : n < 2 ^ 64) (r : Bytes) :
    decodeMapHeader (encodeMapHeader n ++ r) = some (n, r) :=
  Cbor.decodeOfType_complete (encodeHead_isHead 5 n (by decide) hn) r

theorem roundtrip_bytes (bs : Bytes) (hl : bs.length < 2 ^ 63) (r : Bytes) :
    decodeByteString (encodeBytes bs ++ r) = some (bs, r) :=
  Cbor.decodeBytesOfType_complete ⟨_, encodeHead_isHead 2 _ (by decide) (by omega), rfl⟩ hl r

theorem roundtrip_text (s out : Bytes) (hl : s.length < 2 ^ 63) (h : encodeText s = .ok out) (r : Bytes) :
    decodeTextString (out ++ r) = some (s, r) := by
  unfold encodeText at h
  by_cases hu : utf8Valid s = true
  · simp [hu] at h
    subst h
    exact decodeText_complete _ _ ⟨_, encodeHead_isHead 3 _ (by decide) (by omega), rfl⟩ hl hu r
  · simp [hu] at h

/-! non-vacuity -/
example : decodeUint [0x19, 0x01, 0xf4, 0xaa] = some (500, [0xaa]) := by decide
example : decodeUint [0x18, 0x05] = some (5, []) := by decide          -- non-shortest head accepted
example : decodeUint [0x1c] = none := by decide                        -- F2 witness, rejected after the fix
example : decodeByteString [0x5b, 0x80, 0, 0, 0, 0, 0, 0, 0, 1, 2, 3] = none := by decide  -- F3 witness
example : decodeByteString [0x43, 1, 2] = none := by decide            -- truncated

end WebPkg.C12
