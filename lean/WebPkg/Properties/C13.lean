import WebPkg.Proofs.Deterministic
import WebPkg.Proofs.Sort
/-
  C13 — Deterministic-CBOR check agrees with RFC 8949 core deterministic rules.
  Model: Model/Deterministic.lean (deterministic.go + addinfo.go after fix F4), defined by
  well-founded recursion without fuel: termination on every input is part of the definition.
  Spec: Spec.Cbor.DetItem / DetSeq (RFC 8949 section 4.2.1 on the subset uint/bytes/text/array/map),
  written as an inductive relation on byte strings, independent of the Go code.
-/
namespace WebPkg.C13
open WebPkg.Cbor WebPkg.Spec.Cbor WebPkg.Det

theorem seqLoop_sound : ∀ (n : Nat) (bs : Bytes), bs.length ≤ n → seqLoop bs = .ok () → DetSeq bs := by
  intro n
  induction n with
  | zero =>
    intro bs hbs _
    have : bs = [] := List.eq_nil_of_length_eq_zero (by omega)
    exact ⟨[], by simp, by simp [this]⟩
  | succ n ih =>
    intro bs hbs h
    rw [seqLoop] at h
    by_cases h0 : bs.length = 0
    · have : bs = [] := List.eq_nil_of_length_eq_zero h0
      exact ⟨[], by simp, by simp [this]⟩
    · simp only [h0, dite_false] at h
      cases hd : detRec bs with
      | error => simp [hd] at h
      | panic => simp [hd] at h
      | ok l =>
        simp only [hd] at h
        obtain ⟨hl0, hl1, hdi⟩ := detRec_sound hd
        have hl : ¬ l = 0 := by omega
        simp only [hl, if_false] at h
        obtain ⟨items, hall, hflat⟩ := ih (bs.drop l) (by simp; omega) h
        refine ⟨bs.take l :: items, ?_, ?_⟩
        · intro i hi
          rcases List.mem_cons.mp hi with rfl | hi
          · exact hdi
          · exact hall i hi
        · rw [List.flatten_cons, ← hflat, List.take_append_drop]

theorem seqLoop_complete : ∀ (items : List Bytes), (∀ i ∈ items, DetItem i) → seqLoop items.flatten = .ok ()
  | [], _ => by rw [seqLoop]; simp
  | i :: rest, hall => by
    have hi := hall i (by simp)
    have hne := detItem_ne_nil hi
    have hlen : 0 < i.length := List.length_pos_iff.mpr hne
    rw [seqLoop, List.flatten_cons]
    have h0 : ¬ (i ++ rest.flatten).length = 0 := by rw [List.length_append]; omega
    simp only [h0, dite_false, detRec_complete hi rest.flatten]
    have : ¬ i.length = 0 := by omega
    simp only [this, if_false, List.drop_left]
    exact seqLoop_complete rest (fun j hj => hall j (by simp [hj]))

/-- T1: `Deterministic` accepts a byte string **exactly when** it is a sequence of complete items of
    the subset in RFC 8949 core deterministic form (unbounded nesting). -/
theorem deterministic_iff (bs : Bytes) : deterministic bs = .ok () ↔ DetSeq bs := by
  constructor
  · exact seqLoop_sound bs.length bs (Nat.le_refl _)
  · rintro ⟨items, hall, rfl⟩
    exact seqLoop_complete items hall

/-- deterministic items are self-delimiting: no item is a proper prefix of another -/
theorem detItem_prefix_free {a b x : Bytes} (ha : DetItem a) (hb : DetItem b) (e : b = a ++ x) : x = [] := by
  have h1 := detRec_complete ha x
  have h2 := detRec_complete hb []
  rw [List.append_nil, e, h1] at h2
  simp only [Outcome.ok.injEq, List.length_append] at h2
  exact List.eq_nil_of_length_eq_zero (by omega)

/-- T2: truncated input is never accepted: no non-empty proper prefix of a deterministic item is
    accepted (the empty prefix is the empty CBOR sequence). -/
theorem truncated_rejected (item : Bytes) (h : DetItem item) (k : Nat) (hk0 : 0 < k) (hk : k < item.length) :
    deterministic (item.take k) ≠ .ok () := by
  intro hok
  obtain ⟨items, hall, hflat⟩ := (deterministic_iff _).mp hok
  cases items with
  | nil =>
    have := congrArg List.length hflat
    simp only [List.length_take, List.flatten_nil, List.length_nil] at this
    omega
  | cons i rest =>
    have hi := hall i (by simp)
    have e : item = i ++ (rest.flatten ++ item.drop k) := by
      conv => lhs; rw [← List.take_append_drop k item, hflat]
      simp
    have hx := detItem_prefix_free hi h e
    have hlen := congrArg List.length hflat
    have h2 := congrArg List.length e
    simp [hx] at hlen h2
    omega

/-- T3: everything the encoder emits in the subset is accepted: unsigned integers, byte strings,
    (valid) text strings, arrays of accepted items and maps of accepted keys/values. -/
theorem encoder_uint_accepted (n : Nat) (hn : n < 2 ^ 64) : DetItem (encodeUint n) :=
  DetItem.uint _ n (encodeHead_shortest 0 n (by decide) hn)

theorem encoder_bytes_accepted (bs : Bytes) (hl : bs.length < 2 ^ 64) : DetItem (encodeBytes bs) :=
  DetItem.str 2 _ bs (Or.inl rfl) (encodeHead_shortest 2 _ (by decide) hl)

theorem encoder_text_accepted (s out : Bytes) (hl : s.length < 2 ^ 64) (h : encodeText s = .ok out) : DetItem out := by
  unfold encodeText at h
  by_cases hu : utf8Valid s = true
  · simp [hu] at h; subst h
    exact DetItem.str 3 _ s (Or.inr rfl) (encodeHead_shortest 3 _ (by decide) hl)
  · simp [hu] at h

theorem encoder_array_accepted (items : List Bytes) (hl : items.length < 2 ^ 64) (hall : ∀ i ∈ items, DetItem i) :
    DetItem (encodeArrayHeader items.length ++ items.flatten) :=
  DetItem.array _ items (encodeHead_shortest 4 _ (by decide) hl) hall

theorem encoder_map_accepted (es : List Entry) (out : Bytes) (hl : es.length < 2 ^ 64)
    (hk : ∀ e ∈ es, DetItem e.1) (hv : ∀ e ∈ es, DetItem e.2) (h : encodeMap es = .ok out) : DetItem out := by
  unfold encodeMap at h
  simp only at h
  by_cases hd : hasAdjDup (sortEntries es) = true
  · simp [hd] at h
  · simp only [hd] at h
    simp at h; subst h
    have hp := sortEntries_perm es
    have hasc := strictAsc_of_sorted_noAdjDup _ (sortEntries_sorted es) (by simpa using hd)
    have := DetItem.map (encodeHead 5 (sortEntries es).length) (sortEntries es)
      (encodeHead_shortest 5 _ (by decide) (by rw [hp.length_eq]; exact hl))
      (fun kv hkv => hk kv (hp.subset hkv)) (fun kv hkv => hv kv (hp.subset hkv))
      (hasc.imp (fun hab => lexLt_of_blt hab))
    rw [hp.length_eq] at this
    exact this

/-- T4 (termination): the only branch of the top-level loop that does not advance is dead — every
    accepted item consumes at least one byte (before fix F4 this branch was an infinite loop). -/
theorem always_advances (bs : Bytes) (l : Nat) (h : detRec bs = .ok l) : 0 < l ∧ l ≤ bs.length :=
  ⟨(detRec_sound h).1, (detRec_sound h).2.1⟩

/-! non-vacuity / regression witnesses (F4) -/
example : DetSeq [0x83, 1, 2, 3] :=
  ⟨[[0x83, 1, 2, 3]], by
    intro i hi; simp at hi; subst hi
    exact encoder_array_accepted [[1], [2], [3]] (by decide) (by
      intro j hj; simp at hj
      rcases hj with rfl | rfl | rfl
      · exact encoder_uint_accepted 1 (by decide)
      · exact encoder_uint_accepted 2 (by decide)
      · exact encoder_uint_accepted 3 (by decide)), by simp⟩

end WebPkg.C13
