import WebPkg.Proofs.Mice
/-
  C14 — MI encoding round-trips and matches the draft's definition.
  Model: Model/Mice.lean `encode` (the two Go loops with their index arithmetic), `decodeAll`
  (NewDecoder + ReadAll). Spec: Spec/Mice.lean (recursive definition of the draft).
  `H` (SHA-256) is a parameter; only `|H x| = 32` is assumed.
-/
namespace WebPkg.C14
open WebPkg.Mice WebPkg.Spec.Mice

variable (H : Bytes → Bytes)

/-- T1: for every payload, every record size ≥ 1 and both drafts, the bytes `Encode` writes and the
    digest it returns are exactly the draft's stream (8-byte record size, then records interleaved
    with the proofs of their successors; draft-03 empty payload = empty stream) and top-level proof
    (empty payload: `H(0x00)`), formatted with the draft's identifier and base64 alphabet. -/
theorem encode_eq_spec (enc : Enc) (payload : Bytes) (rs : Nat) (hrs : 1 ≤ rs) :
    encode H enc payload rs = (stream H (enc = .draft03) rs payload, formatDigestHeader enc (topProof H rs payload)) :=
  Mice.encode_eq_spec H enc payload rs hrs

/-- T2: encode, then decode with the returned digest header: the payload comes back completely and
    the decoder reports clean end of stream — for every payload, record size `1 ≤ rs ≤ max`
    (`rs < 2^64`: the 8-byte field) and both drafts. -/
theorem decode_encode (hlen : ∀ x, (H x).length = 32) (enc : Enc) (payload : Bytes) (rs maxRs : Nat)
    (hrs : 1 ≤ rs) (hmax : rs ≤ maxRs) (h64 : rs < 2 ^ 64) :
    decodeAll H enc (encode H enc payload rs).1 (encode H enc payload rs).2 maxRs = (payload, .eof) := by
  rw [Mice.encode_eq_spec H enc payload rs hrs]
  have hne := recordsOf_ne_nil rs hrs payload
  exact decodeAll_honest H hlen enc rs maxRs payload _ hrs hmax h64
    (parse_format enc _ (chain_length H hlen _ hne))

/-- T2': the same through any sequence of `Read` calls with arbitrary destination sizes: what is
    handed out is a prefix of the payload, and once the reads end (EOF/error) it is the whole payload
    with status EOF. -/
theorem read_encode (hlen : ∀ x, (H x).length = 32) (enc : Enc) (payload : Bytes) (rs maxRs : Nat)
    (hrs : 1 ≤ rs) (hmax : rs ≤ maxRs) (h64 : rs < 2 ^ 64) (st : State) (sizes : List Nat)
    (hst : newDecoder H enc (encode H enc payload rs).1 (encode H enc payload rs).2 maxRs = .ok st) :
    (readSeq H st sizes).1 <+: payload ∧
      ((readSeq H st sizes).2 ≠ .ok → (readSeq H st sizes).1 = payload ∧ (readSeq H st sizes).2 = .eof) := by
  have hf := newDecoder_future H enc _ _ maxRs st hst
  have hr := readSeq_refines H sizes st hf.2
  rw [hf.1, decode_encode H hlen enc payload rs maxRs hrs hmax h64] at hr
  exact hr

/-- T3: digest header syntax: `parseDigestHeader (FormatDigestHeader d) = d` for every 32-byte proof,
    both drafts (identifier, '=', raw-URL base64 for draft-02 / padded standard base64 for draft-03). -/
theorem digest_header_roundtrip (enc : Enc) (d : Bytes) (hd : d.length = 32) :
    parseDigestHeader enc (formatDigestHeader enc d) = some d := parse_format enc d hd

/-- T4: base64 round trip for all four Go encodings -/
theorem base64_roundtrip (url pad : Bool) (bs : Bytes) : Base64.decode url pad (Base64.encode url pad bs) = some bs :=
  Base64.decode_encode url pad bs

/-- T5: the records of a payload concatenate back to it, all but the last are full -/
theorem records_partition (rs : Nat) (hrs : 1 ≤ rs) (p : Bytes) : (recordsOf rs p).flatten = p :=
  recordsOf_flatten rs hrs p

/-! non-vacuity: a toy 32-byte "hash" satisfies the only hypothesis on H -/
example : ∀ x : Bytes, ((fun _ => List.replicate 32 (0 : UInt8)) x).length = 32 := by intro x; simp

end WebPkg.C14
