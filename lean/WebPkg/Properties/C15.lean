import WebPkg.Proofs.Mice
import WebPkg.Proofs.MicePostError
/-
  C15 — MI decoder releases only data authenticated by the digest.
  No injectivity of SHA-256 is assumed (it is false): every conclusion has the form
  "... ∨ Collision H", the collision being two concrete different inputs with equal hash.
-/
namespace WebPkg.C15
open WebPkg.Mice WebPkg.Spec.Mice

variable (H : Bytes → Bytes)

/-- T1 (soundness of NewDecoder + ReadAll): let the digest header be the proof of an honest record
    list `recs` (any non-empty list: in particular the records of any payload for any record size).
    Then for **every** byte stream whatsoever and every record-size limit, the bytes released before
    the first error are a prefix of the committed payload, and clean EOF is reported only after the
    complete payload. The record size written in the stream need not be the honest one. -/
theorem decodeAll_sound (hlen : ∀ x, (H x).length = 32) (enc : Enc) (recs : List Bytes) (hne : recs ≠ [])
    (stream : Bytes) (maxRs : Nat) :
    let r := decodeAll H enc stream (formatDigestHeader enc (chain H recs)) maxRs
    (r.1 <+: recs.flatten ∧ (r.2 = .eof → r.1 = recs.flatten)) ∨ Collision H :=
  Mice.decodeAll_sound H hlen enc recs hne stream _ maxRs (parse_format enc _ (chain_length H hlen recs hne))

/-- T1': the same for the `Read` state machine driven with arbitrary destination sizes. -/
theorem read_sound (hlen : ∀ x, (H x).length = 32) (enc : Enc) (recs : List Bytes) (hne : recs ≠ [])
    (stream : Bytes) (maxRs : Nat) (st : State) (sizes : List Nat)
    (hst : newDecoder H enc stream (formatDigestHeader enc (chain H recs)) maxRs = .ok st) :
    ((readSeq H st sizes).1 <+: recs.flatten ∧ ((readSeq H st sizes).2 = .eof → (readSeq H st sizes).1 = recs.flatten))
    ∨ Collision H := by
  have hf := newDecoder_future H enc stream _ maxRs st hst
  have hr := readSeq_refines H sizes st hf.2
  rcases decodeAll_sound H hlen enc recs hne stream maxRs with hs | hc
  · left
    rw [hf.1] at hr
    refine ⟨List.IsPrefix.trans hr.1 hs.1, fun he => ?_⟩
    have h2 := hr.2 (by rw [he]; simp)
    rw [h2.1]
    exact hs.2 (by rw [← h2.2, he])
  · exact Or.inr hc

/-- T2 (uniqueness): a digest commits to one payload: if two record lists have the same top-level
    proof they have the same concatenation, or a collision is exhibited. -/
theorem digest_unique (hlen : ∀ x, (H x).length = 32) (recs₁ recs₂ : List Bytes) (h1 : recs₁ ≠ [])
    (rs : Nat) (hh : Honest true rs recs₂) (he : chain H recs₁ = chain H recs₂) :
    recs₂.flatten = recs₁.flatten ∨ Collision H := by
  -- run the decoder on the honest stream of recs₂ under the (equal) proof of recs₁
  have hs := loop_sound H hlen true rs recs₁ h1 (body H recs₂)
  rw [he, loop_honest H hlen true rs recs₂ hh] at hs
  rcases hs with hs | hc
  · exact Or.inl (hs.2 rfl)
  · exact Or.inr hc

/-- T3: a record size of zero or above the caller's limit is refused by `NewDecoder` before any
    record is read (no state is created, nothing is allocated for records). -/
theorem recordsize_refused (enc : Enc) (stream digest : Bytes) (maxRs : Nat) (h8 : 8 ≤ stream.length)
    (hbad : beVal (stream.take 8) = 0 ∨ beVal (stream.take 8) > maxRs) :
    ∃ e, newDecoder H enc stream digest maxRs = .error e := by
  unfold newDecoder
  cases parseDigestHeader enc digest with
  | none => exact ⟨_, rfl⟩
  | some proof =>
    have n1 : ¬ (stream.length = 0 ∧ enc ≠ .draft02) := by omega
    have n2 : ¬ stream.length < 8 := by omega
    simp only [n1, n2, if_false, hbad, if_true]
    exact ⟨_, rfl⟩

/-- T4: when `NewDecoder` succeeds on a non-empty stream the record buffer it allocates is
    `rs + 32 ≤ max + 32` bytes, whatever the stream declares. -/
theorem record_buffer_bounded (enc : Enc) (stream digest : Bytes) (maxRs : Nat) (st : State)
    (h : newDecoder H enc stream digest maxRs = .ok st) : st.rs ≤ maxRs := by
  unfold newDecoder at h
  cases hd : parseDigestHeader enc digest with
  | none => simp [hd] at h
  | some proof =>
    simp only [hd] at h
    by_cases h1 : stream.length = 0 ∧ enc ≠ .draft02
    · rw [if_pos h1] at h
      by_cases h2 : H [0] = proof
      · rw [if_pos h2] at h; injection h with h; subst h; simp
      · rw [if_neg h2] at h; simp at h
    · rw [if_neg h1] at h
      by_cases h3 : stream.length < 8
      · rw [if_pos h3] at h; simp at h
      · rw [if_neg h3] at h
        by_cases h4 : beVal (stream.take 8) = 0 ∨ beVal (stream.take 8) > maxRs
        · rw [if_pos h4] at h; simp at h
        · rw [if_neg h4] at h; injection h with h; subst h
          simp only; omega

/-- T5 (one step of the state machine): see `Mice.read_refines` — a `Read` hands out exactly the next
    bytes of what the loop will release; re-exported here as a headline statement. -/
theorem read_step (st : State) (n : Nat) (hrs : 0 < st.rs ∨ st.nextProof = none) :
    match read H st n with
    | (st', bs, .ok) => (future H st).1 = bs ++ (future H st').1 ∧ (future H st').2 = (future H st).2 ∧
        (0 < st'.rs ∨ st'.nextProof = none)
    | (_, bs, s) => bs = [] ∧ (future H st).1 = [] ∧ (future H st).2 = s := read_refines H st n hrs

/-! ### across reported errors
    The real decoder (and the model) stays usable after `ErrValidationFailure`: the rejected record has been consumed, the expected
    proof is unchanged, and a further `Read` validates the next `rs+32` bytes against it. `readEvery` is the caller that never stops. -/

/-- T7: whatever a caller that ignores every reported error ever obtains — any stream, any destination sizes — is a prefix of the
    unique payload the digest commits to (or a SHA-256 collision is exhibited): the decoder never hands out unauthenticated data,
    not even after it has reported an error -/
theorem read_every_sound (hlen : ∀ x, (H x).length = 32) (enc : Enc) (recs : List Bytes) (hne : recs ≠ [])
    (stream : Bytes) (maxRs : Nat) (st : State) (sizes : List Nat)
    (hst : newDecoder H enc stream (formatDigestHeader enc (chain H recs)) maxRs = .ok st) :
    MicePostError.readEvery H st sizes <+: recs.flatten ∨ Collision H :=
  MicePostError.readEvery_sound H hlen enc recs hne stream maxRs st sizes hst

/-- T8: in that never-stopping run, a clean end-of-stream reported by ANY call means the whole payload has been delivered -/
theorem eof_complete_across_errors (hlen : ∀ x, (H x).length = 32) (enc : Enc) (recs : List Bytes) (hne : recs ≠ [])
    (stream : Bytes) (maxRs : Nat) (st : State) (sizes : List Nat)
    (hst : newDecoder H enc stream (formatDigestHeader enc (chain H recs)) maxRs = .ok st)
    (heof : RecStatus.eof ∈ (MicePostError.readTrace H st sizes).map Prod.snd) :
    MicePostError.readEvery H st sizes = recs.flatten ∨ Collision H :=
  MicePostError.readEvery_eof_complete H hlen enc recs hne stream maxRs st sizes hst heof

/-- T9: after a clean end-of-stream the decoder stays finished: every later `Read` hands out nothing and reports EOF again -/
theorem stays_finished_after_eof (st st' : State) (n₀ : Nat) (bs : Bytes) (h : read H st n₀ = (st', bs, .eof)) :
    bs = [] ∧ ∀ n, read H st' n = (st', [], .eof) := by
  have := MicePostError.read_after_eof H st st' n₀ bs h
  exact ⟨this.1, this.2.2.2⟩

end WebPkg.C15
