import WebPkg.Proofs.SH
import WebPkg.Proofs.SHGrammar
/-
  C16 — Structured headers: serialize and parse are inverse; parser follows grammar.
  Model: Model/StructuredHeader.lean (parser.go, writer.go).  Lemmas: Proofs/SH.lean.
  Go's `Parameters` is a map (distinct keys); the model takes a key list with distinct keys and
  `normPI` orders it by key (what the parser returns is compared up to that order in the harness too).
  Spec: Spec/SH.lean — the implemented subset of the draft-09 ABNF as inductive derivation relations.
-/
namespace WebPkg.C16
open WebPkg.SH

/-- T1a: serializing any valid list-of-lists and parsing the result returns the identical value. -/
theorem parse_serialize_ll (ll : List (List Item)) (s : Bytes)
    (hv : ∀ inner ∈ ll, ∀ i ∈ inner, validItem i = true) (h : serializeLL ll = some s) :
    parseListOfLists s = some ll := SH.parse_serialize_ll ll s hv h

/-- T1b: the same for parameterised lists (parameters come back in key order). -/
theorem parse_serialize_pl (pl : List PI) (s : Bytes) (hv : ∀ pi ∈ pl, validPI pi = true)
    (hk : ∀ pi ∈ pl, (pi.params.map Prod.fst).Nodup) (h : serializePL pl = some s) :
    parseParameterisedList s = some (pl.map normPI) := SH.parse_serialize_pl pl s hv hk h

/-- T1c: item level, in any context that ends the item (end of input, OWS, ',' or ';'):
    all int64 incl. extremes, strings with quotes/backslashes, every token, byte sequences of every length. -/
theorem parse_serialize_item (i : Item) (s rest : Bytes) (hv : validItem i = true) (hr : ItemEnd rest)
    (h : serializeItem i = some s) : parseItem (s ++ rest) = some (i, rest) := SH.parseItem_serializeItem i s rest hv hr h

/-- T2: serialization fails exactly on the invalid values: empty lists, empty inner lists, labels or
    tokens that are not tokens, malformed keys, strings with non-printable characters, unsupported item types. -/
theorem serializePL_fails_iff (pl : List PI) : (serializePL pl).isSome = true ↔
    (pl ≠ [] ∧ ∀ pi ∈ pl, isValidToken pi.label = true ∧
      ∀ kv ∈ pi.params, isValidKey kv.1 = true ∧ (∀ i, kv.2 = some i → (serializeItem i).isSome = true)) :=
  SH.serializePL_isSome_iff pl

theorem serializeLL_fails_iff (ll : List (List Item)) : (serializeLL ll).isSome = true ↔
    (ll ≠ [] ∧ ∀ inner ∈ ll, inner ≠ [] ∧ ∀ i ∈ inner, (serializeItem i).isSome = true) :=
  SH.serializeLL_isSome_iff ll

theorem serializeItem_fails_iff (i : Item) : (serializeItem i).isSome = true ↔
    match i with
    | .int _ => True
    | .str s => s.all (fun c => 32 ≤ c && c ≤ 126) = true
    | .token t => isValidToken t = true
    | .bytes _ => True
    | .other => False := SH.serializeItem_isSome_iff i

/-- T3: the output does not depend on the order in which the parameters were inserted
    (every permutation of a Go map's iteration order gives the same string). -/
theorem params_order_irrelevant (l : Bytes) (p₁ p₂ : Params) (hp : p₁.Perm p₂) (hn : (p₁.map Prod.fst).Nodup) :
    serializePI ⟨l, p₁⟩ = serializePI ⟨l, p₂⟩ := SH.serializePI_perm l p₁ p₂ hp hn

/-- T4: whatever the parsers accept is a valid value with distinct parameter keys ... -/
theorem parse_pl_valid (s : Bytes) (pl : List PI) (h : parseParameterisedList s = some pl) :
    pl ≠ [] ∧ ∀ pi ∈ pl, validPI pi = true ∧ (pi.params.map Prod.fst).Nodup := SH.parseParameterisedList_valid s pl h

theorem parse_ll_valid (s : Bytes) (ll : List (List Item)) (h : parseListOfLists s = some ll) :
    ll ≠ [] ∧ ∀ inner ∈ ll, inner ≠ [] ∧ ∀ i ∈ inner, validItem i = true := SH.parseListOfLists_valid s ll h

/-- ... hence parse–serialize–parse is the identity on every accepted input. -/
theorem parse_serialize_parse_pl (s : Bytes) (pl : List PI) (h : parseParameterisedList s = some pl) :
    ∃ s', serializePL pl = some s' ∧ parseParameterisedList s' = some (pl.map normPI) := SH.parse_serialize_parse_pl s pl h

theorem parse_serialize_parse_ll (s : Bytes) (ll : List (List Item)) (h : parseListOfLists s = some ll) :
    ∃ s', serializeLL ll = some s' ∧ parseListOfLists s' = some ll := SH.parse_serialize_parse_ll s ll h

/-- T5: integers: `ParseInt (FormatInt z) = z` over the whole int64 range. -/
theorem int_roundtrip (z : Int) (h1 : -(2:Int)^63 ≤ z) (h2 : z < (2:Int)^63) : parseInt64 (formatInt z) = some z :=
  SH.parseInt64_formatInt z h1 h2

/-- T6 (grammar): on arbitrary input strings the parsers accept **exactly** the grammar of Spec/SH.lean
    and return the value the derivation denotes (both directions, every string). -/
theorem parser_grammar_pl (s : Bytes) (pl : List PI) : parseParameterisedList s = some pl ↔ Spec.SH.PLD s pl :=
  SH.parseParameterisedList_iff s pl

theorem parser_grammar_ll (s : Bytes) (ll : List (List Item)) : parseListOfLists s = some ll ↔ Spec.SH.LLD s ll :=
  SH.parseListOfLists_iff s ll

theorem parser_grammar_item (inp : Bytes) (i : Item) (rest : Bytes) (h : parseItem inp = some (i, rest)) :
    ∃ ie, inp = ie ++ rest ∧ Spec.SH.ItemD ie i := SH.parseItem_sound inp i rest h

/-! non-vacuity -/
example : validItem (.int (-(2:Int)^63)) = true := by decide
example : validPI ⟨[97], [([107], some (.str [34, 92]))]⟩ = true := by decide

end WebPkg.C16
