import WebPkg.Proofs.CertChain
/-
  C17 — cert-chain+cbor and SCT lists round-trip and are validated.
  Model: Model/CertChain.lean (certchain.go, sct.go). `x509.ParseCertificate` is the parameter `parseOk`
  (its `Raw = input` behaviour is trusted stdlib behaviour, checked on every generated certificate).
-/
namespace WebPkg.C17
open WebPkg.CertChain WebPkg.Cbor

/-- T1: writing a chain and reading it back reproduces each certificate's DER, the OCSP response and the SCT
    list byte for byte (presence included). -/
theorem read_write (parseOk : Bytes → Bool) (chain : List AugCert) (out : Bytes) (h : write chain = some out)
    (hp : ∀ a ∈ chain, parseOk a.cert = true)
    (hlen : ∀ a ∈ chain, a.cert.length < 2 ^ 63 ∧ (∀ o, a.ocsp = some o → o.length < 2 ^ 63) ∧
      (∀ s, a.sct = some s → s.length < 2 ^ 63))
    (hn : chain.length + 1 < 2 ^ 64) : read parseOk out = some chain :=
  CertChain.read_write parseOk chain out h hp hlen hn

/-- T2: a chain can be written **iff** it is valid: non-empty, OCSP response on the first element, none later -/
theorem write_iff_validate (chain : List AugCert) : (write chain).isSome = true ↔ validate chain = true :=
  CertChain.write_iff_validate chain

/-- T2': only such chains can be read, and every returned certificate was accepted by the X.509 parser -/
theorem read_validates (parseOk : Bytes → Bool) (bs : Bytes) (chain : List AugCert) (h : read parseOk bs = some chain) :
    validate chain = true ∧ ∀ a ∈ chain, parseOk a.cert = true := CertChain.read_validates parseOk bs chain h

/-- T3: the output is canonical CBOR of the form [magic, {cert, ocsp?, sct?}, ...]: array head with the count,
    the magic text string, then one canonical map per certificate with exactly its entries -/
theorem write_canonical (chain : List AugCert) (out : Bytes) (h : write chain = some out) :
    ∃ items : List Bytes, items.length = chain.length ∧
      out = encodeHead 4 (chain.length + 1) ++ textItem magic ++ items.flatten ∧
      ∀ i (hi : i < chain.length), Spec.Sxg.IsCanonicalMap (items.getD i []) (augEntries chain[i]) :=
  CertChain.write_canonical_pairs chain out h

/-- T3': closed form of one element: entries in the order sct, cert, ocsp (bytewise order of the encoded keys) -/
theorem element_closed_form (a : AugCert) : encodeAugCert a =
    .ok (encodeHead 5 (1 + (if a.ocsp.isSome then 1 else 0) + (if a.sct.isSome then 1 else 0)) ++
      (match a.sct with | some s => textItem kSct ++ encodeBytes s | none => []) ++
      (textItem kCert ++ encodeBytes a.cert) ++
      (match a.ocsp with | some o => textItem kOcsp ++ encodeBytes o | none => [])) :=
  CertChain.encodeAugCert_closed' a

/-- T4: a serialized SCT list is the RFC 6962 length-prefixed vector of exactly the given SCTs in order ... -/
theorem sct_roundtrip (scts : List Bytes) (out : Bytes) (h : serializeSCTList scts = some out) :
    parseSCTList out = some scts := CertChain.sct_roundtrip scts out h


/-- ... or an error, exactly when an element or the total (with 2-byte prefixes) exceeds 65535 bytes. -/
theorem sct_fails_iff (scts : List Bytes) : serializeSCTList scts = none ↔
    ((∃ s ∈ scts, 65535 < s.length) ∨ 65535 < (scts.map fun s => s.length + 2).sum) :=
  CertChain.sct_fails_iff scts

/-- observation (not required by the property): the serializer does not enforce RFC 6962's *lower* bounds
    `<1..2^16-1>`; a strict parser reads the output back exactly when the list and every SCT are non-empty -/
theorem sct_strict_iff (scts : List Bytes) (out : Bytes) (h : serializeSCTList scts = some out) :
    parseSCTListStrict out = some scts ↔ (scts ≠ [] ∧ ∀ s ∈ scts, s ≠ []) :=
  CertChain.sct_roundtrip_strict_iff scts out h

end WebPkg.C17
