import WebPkg.Properties.C11
import WebPkg.Properties.C16
import WebPkg.Model.Sxg
import WebPkg.Model.Bundle
import WebPkg.Model.BSig
import WebPkg.Model.IntegrityBlock
/-
  C18 — Serializers are pure: same logical input, same bytes, in any history/schedule.
  In the model every serializer is a function, so repetition and interleaving cannot matter; the failure
  mode the property names — Go's randomised map iteration — is modelled as "any permutation of the entry
  list", and each serializer is proved invariant under **every** permutation of every map-typed component.
  Data-race freedom and schedule independence of the Go runtime cannot be exhibited by a sequential model:
  that half is supported only by the race-detector histories of the correspondence (see MANIFEST level_note).
-/
namespace WebPkg.C18
open WebPkg.Cbor WebPkg.Http

/-- T1 (the common core): `EncodeMap` output is independent of the order in which entries were supplied -/
theorem encodeMap_order (es₁ es₂ : List Entry) (hp : es₁.Perm es₂) : encodeMap es₁ = encodeMap es₂ :=
  C11.encodeMap_perm es₁ es₂ hp

/-- T2: structured headers: parameter insertion order is irrelevant -/
theorem signature_header_order (l : Bytes) (p₁ p₂ : SH.Params) (hp : p₁.Perm p₂) (hn : (p₁.map Prod.fst).Nodup) :
    SH.serializePI ⟨l, p₁⟩ = SH.serializePI ⟨l, p₂⟩ := C16.params_order_irrelevant l p₁ p₂ hp hn

/-- T3: signed exchange: header block, file and signed message do not depend on the iteration order of the
    request / response header maps -/
theorem sxg_headers_order (e : Sxg.Exchange) (rq rs : Headers) (h1 : e.reqHeaders.Perm rq) (h2 : e.respHeaders.Perm rs) :
    Sxg.encodeExchangeHeaders { e with reqHeaders := rq, respHeaders := rs } = Sxg.encodeExchangeHeaders e := by
  have e1 : Sxg.encodeRequestMap { e with reqHeaders := rq, respHeaders := rs } = Sxg.encodeRequestMap e := by
    unfold Sxg.encodeRequestMap
    apply encodeMap_order
    simp only
    exact List.Perm.append_left _ ((h1.map _).symm)
  have e2 : Sxg.encodeResponseMap { e with reqHeaders := rq, respHeaders := rs } = Sxg.encodeResponseMap e := by
    unfold Sxg.encodeResponseMap
    apply encodeMap_order
    simp only
    exact List.Perm.cons _ ((h2.map _).symm)
  unfold Sxg.encodeExchangeHeaders
  simp only [e1, e2]

theorem sxg_write_order (e : Sxg.Exchange) (rq rs : Headers) (h1 : e.reqHeaders.Perm rq) (h2 : e.respHeaders.Perm rs) :
    Sxg.write { e with reqHeaders := rq, respHeaders := rs } = Sxg.write e := by
  unfold Sxg.write
  rw [sxg_headers_order e rq rs h1 h2]

theorem sxg_signedMessage_order (e : Sxg.Exchange) (rq rs : Headers) (h1 : e.reqHeaders.Perm rq) (h2 : e.respHeaders.Perm rs)
    (c : Option Bytes) (v : Bytes) (d x : Int) :
    Sxg.signedMessage { e with reqHeaders := rq, respHeaders := rs } c v d x = Sxg.signedMessage e c v d x := by
  unfold Sxg.signedMessage
  rw [sxg_headers_order e rq rs h1 h2]

/-- T4: bundles: a response's header block does not depend on the header map's iteration order -/
theorem bundle_response_order (r : Bundle.Resp) (hs : Headers) (h : r.headers.Perm hs) :
    Bundle.encodeResponse { r with headers := hs } = Bundle.encodeResponse r := by
  have e1 : Bundle.encodeRespHeader { r with headers := hs } = Bundle.encodeRespHeader r := by
    unfold Bundle.encodeRespHeader
    apply encodeMap_order
    exact List.Perm.cons _ ((h.map _).symm)
  unfold Bundle.encodeResponse
  simp only [e1]

/-- T5: integrity block: the attribute map's iteration order is irrelevant (block bytes and data to be signed) -/
theorem ib_attrs_order (a₁ a₂ : List (Bytes × Bytes)) (h : a₁.Perm a₂) : IB.attrsCbor a₁ = IB.attrsCbor a₂ := by
  unfold IB.attrsCbor
  exact encodeMap_order _ _ (h.map _)

theorem ib_dataToBeSigned_order (hash blk : Bytes) (a₁ a₂ : List (Bytes × Bytes)) (h : a₁.Perm a₂) :
    IB.dataToBeSigned hash blk a₁ = IB.dataToBeSigned hash blk a₂ := by
  unfold IB.dataToBeSigned
  rw [ib_attrs_order a₁ a₂ h]

/-- T6: bundle signed-subset: the subset-hashes map's iteration order is irrelevant -/
theorem bsig_subset_order (s : BSig.SignedSubset) (hs : List (Bytes × BSig.ResponseHashes)) (h : s.subsetHashes.Perm hs) :
    BSig.encodeSignedSubset { s with subsetHashes := hs } = BSig.encodeSignedSubset s := by
  unfold BSig.encodeSignedSubset
  have : BSig.mapOrHeader (hs.map fun x => ((BSig.textOrEmpty x.1, encodeArrayHeader (1 + x.2.hashes.length * 2) ++ encodeBytes x.2.variantsValue ++
      (x.2.hashes.map fun ri => encodeBytes ri.headerSha256 ++ BSig.textOrEmpty ri.payloadIntegrityHeader).flatten) : Entry)) =
    BSig.mapOrHeader (s.subsetHashes.map fun x => ((BSig.textOrEmpty x.1, encodeArrayHeader (1 + x.2.hashes.length * 2) ++ encodeBytes x.2.variantsValue ++
      (x.2.hashes.map fun ri => encodeBytes ri.headerSha256 ++ BSig.textOrEmpty ri.payloadIntegrityHeader).flatten) : Entry)) := by
    unfold BSig.mapOrHeader
    rw [encodeMap_order _ _ ((h.map _).symm), (h.map _).length_eq]
  simp only
  exact congrArg _ (by simp only [this])

end WebPkg.C18
