import WebPkg.Proofs.Trace
import WebPkg.Proofs.CountingWriter
/-
  C19 — Write failures at any byte position surface as errors, never as success.
  Model: Model/Trace.lean. The theorem is generic over the chunking (how the serializer splits its output into
  Write calls), so merging or splitting writes in the Go code changes nothing. That the real serializers check
  every destination-facing write is established per run by exhaustive fault enumeration against this theorem.
-/
namespace WebPkg.C19
open WebPkg.Trace

/-- T1: for every chunking of the fault-free output, every failure position `k` and both fault modes:
    the accepted bytes are a prefix of the fault-free output of length ≤ k (exactly k for short writes);
    the run reports an error **iff** `k < |out|`; success is reported only with the complete output. -/
theorem fault_spec (mode : Mode) (chunks : List Bytes) (k : Nat) :
    let r := runChecked mode chunks k
    r.accepted <+: chunks.flatten ∧ r.accepted.length ≤ k ∧
    (r.failed = true ↔ k < chunks.flatten.length) ∧
    (r.failed = false → r.accepted = chunks.flatten) ∧
    (r.failed = true → mode = .shortWrite → r.accepted.length = k) := runChecked_spec mode chunks k

/-- T2: never success for a partial output -/
theorem never_partial_success (mode : Mode) (chunks : List Bytes) (k : Nat)
    (h : (runChecked mode chunks k).failed = false) : (runChecked mode chunks k).accepted = chunks.flatten :=
  checked_never_partial_success mode chunks k h

/-- T3: the count reported by a CountingWriter in front of the destination is what the destination accepted (≤ k) -/
theorem count_le (mode : Mode) (chunks : List Bytes) (k : Nat) : counted (runChecked mode chunks k) ≤ k :=
  counted_le mode chunks k

/-- T4: the outcome does not depend on how the output is cut into Write calls -/
theorem chunking_irrelevant (mode : Mode) (c₁ c₂ : List Bytes) (h : c₁.flatten = c₂.flatten) (k : Nat) :
    (runChecked mode c₁ k).failed = (runChecked mode c₂ k).failed := by
  have a := (runChecked_spec mode c₁ k).2.2.1
  have b := (runChecked_spec mode c₂ k).2.2.1
  rw [h] at a
  cases h1 : (runChecked mode c₁ k).failed <;> cases h2 : (runChecked mode c₂ k).failed <;> simp_all <;> omega

/-- T5: checking every write is necessary: a program that drops one write error reports success for a strict prefix -/
theorem unchecked_write_breaks_it : ∃ (chunks : List Bytes) (i k : Nat) (mode : Mode),
    (runDropping mode i chunks k).failed = false ∧ (runDropping mode i chunks k).accepted ≠ chunks.flatten :=
  dropped_error_is_visible


/-- `CountingWriter` (countingwriter.go): for every destination kind (implementing io.ReaderFrom, not implementing it,
    failing after any number of bytes with a short write or with n = 0) and every sequence of `Write` / `ReadFrom`
    calls -- the source delivered in chunks of any size --, `Written` equals the number of bytes the destination
    accepted. -/
theorem countingWriter_written_eq_received (k : CW.DestKind) (room : Nat) (ops : List CW.Op) :
    (ops.foldl CW.step (CW.init k room)).written = (ops.foldl CW.step (CW.init k room)).received :=
  CW.written_eq_received k room ops

/-- and without a fault `ReadFrom` transfers the whole source, whatever the chunking -/
theorem countingWriter_readFrom_complete (s : CW.State) (total chunk : Nat) (hk : s.kind ≠ .readerFrom)
    (hf : ∀ b, s.kind ≠ .failing b) (hc : 0 < chunk) :
    (CW.readFrom s total chunk).1 = total ∧ (CW.readFrom s total chunk).2.1 = false :=
  CW.readFrom_complete s total chunk hk hf hc

end WebPkg.C19
