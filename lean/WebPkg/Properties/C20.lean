import WebPkg.Proofs.PathUrl
import WebPkg.Properties.C03
import WebPkg.Properties.C04
import WebPkg.Properties.C05
import WebPkg.Properties.C02
import WebPkg.Properties.C07
import WebPkg.Properties.C17
/-
  C20 — Command-line tools compose: each tool's output is accepted downstream.
  Library level: the composition statements are corollaries of the per-format theorems (C02–C07, C17), re-exported
  below for the path from each producer to its consumer. Tool level: the file-path → URL mapping of gen-bundle
  (fix F12) is modelled and proved injective / fragment-free; flag parsing, PEM decoding, http.ServeFile and the
  file system are exercised through the real binaries only (see MANIFEST: partial).
-/
namespace WebPkg.C20
open WebPkg.PathUrl

/-- T1: every file name maps to a URL without fragment, query, space or quote: the bundle gen-bundle writes
    never contains a URL the reader refuses for those reasons, whatever the file is called -/
theorem url_has_no_fragment_or_query (rel : Bytes) :
    ∀ c ∈ escapePath rel, c ≠ 35 ∧ c ≠ 63 ∧ c ≠ 32 ∧ c ≠ 34 ∧ 33 ≤ c ∧ c ≤ 126 := escapePath_safe rel

/-- T2: distinct relative paths get distinct URLs (exactly one exchange per regular file, none merged) -/
theorem url_injective (base a b : Bytes) (ha : a ≠ [46]) (hb : b ≠ [46]) (h : pathToURL base a = pathToURL base b) : a = b :=
  pathToURL_injective base a b ha hb h

/-- T3: the URL percent-decodes back to the file's relative path (the URL is the base joined with the
    percent-encoded relative path) -/
theorem url_decodes_to_path (rel : Bytes) : unescape (escapePath rel) = some rel := unescape_escapePath rel

/-- T4: directory structure is preserved: encoding distributes over concatenation and never touches "/" -/
theorem url_keeps_directories (a b : Bytes) : escapePath (a ++ [47] ++ b) = escapePath a ++ [47] ++ escapePath b := by
  rw [escapePath_append, escapePath_append]
  congr 2

/-- T5 (composition, library level): gen-bundle's writer output is a well-formed bundle (so dump-bundle's reader
    and sign-bundle's reader, which are the same `bundle.Read`, are handed well-formed input) -/
theorem gen_bundle_output_wellFormed (b : Bundle.Bundle) (out : Bytes) (h : Bundle.write b = .ok (.ok out))
    (hlen : out.length < 2 ^ 64) : Spec.Bundle.WellFormed b.version out := C04.write_wellFormed b out h hlen

/-- T6 (composition): gen-certurl output is accepted by dump-certurl's reader -/
theorem gen_certurl_accepted (parseOk : Bytes → Bool) (chain : List CertChain.AugCert) (out : Bytes)
    (h : CertChain.write chain = some out) (hp : ∀ a ∈ chain, parseOk a.cert = true)
    (hlen : ∀ a ∈ chain, a.cert.length < 2 ^ 63 ∧ (∀ o, a.ocsp = some o → o.length < 2 ^ 63) ∧ (∀ s, a.sct = some s → s.length < 2 ^ 63))
    (hn : chain.length + 1 < 2 ^ 64) : CertChain.read parseOk out = some chain := C17.read_write parseOk chain out h hp hlen hn

/-- T7 (composition): what sign-bundle integrity-block writes is block ‖ original file, so stripping the block
    gives back exactly the bundle gen-bundle produced -/
theorem integrity_block_keeps_bundle (H512 : Bytes → Bytes) (sign : Bytes → Option Bytes) (edVerify : Bytes → Bytes → Bytes → Bool)
    (pk file out : Bytes) (h : IB.signFile H512 sign edVerify pk file = .ok (some out)) :
    ∃ blockBytes, out = blockBytes ++ file := by
  obtain ⟨bb, _, h1, _⟩ := C07.output_layout H512 sign edVerify pk file out h
  exact ⟨bb, h1⟩

end WebPkg.C20
