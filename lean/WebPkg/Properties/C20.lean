import WebPkg.Properties.C20Base
import WebPkg.Properties.C20Compose
import WebPkg.Properties.C20Har
/-
  C20 — Command-line tools compose. Root of the property:
  * `Properties/C20Base.lean` (namespace `WebPkg.C20`): the file-path → URL mapping, the directory walk of `gen-bundle -dir`
    (every regular file delivered exactly once, index.html at its directory's slash URL), and the per-tool acceptance statements;
  * `Properties/C20Compose.lean` (namespace `WebPkg.C20Compose`): the pipelines chained end to end —
      gen-bundle -dir → bundle reader (`gen_bundle_dir_accepted`: what dump-bundle / sign-bundle read back contains, for every regular
      file, exactly one exchange with its URL, status and bytes, and nothing else),
      gen-certurl → gen-signedexchange → dump-signedexchange -verify (`gen_signedexchange_verifies_window`,
      `gen_certurl_signedexchange_verifies`),
      gen-bundle -dir → sign-bundle signatures-section → dump-bundle (`dir_bundle_signed_verifies`),
      gen-bundle -dir → sign-bundle integrity-block (`dir_bundle_integrity_block`).
  * `Properties/C20Har.lean` (namespace `WebPkg.C20Har`): `gen-bundle -har` (Model/HarWalk.lean, the model of cmd/gen-bundle/fromhar.go):
      which entries are kept, header hygiene, the duplicate-URL rule, and gen-bundle -har → bundle reader (`har_bundle_read_back`).
    (That file also holds its helper lemmas, prefixed `cc_`; they are not property statements.)
  Both are audited by `Audit/C20.lean`.
-/
