import WebPkg.Proofs.PathUrl
import WebPkg.Proofs.DirWalk
import WebPkg.Properties.C03
import WebPkg.Properties.C04
import WebPkg.Properties.C05
import WebPkg.Properties.C02
import WebPkg.Properties.C07
import WebPkg.Properties.C17
/-
  C20 — Command-line tools compose: each tool's output is accepted downstream.
  Library level: the composition statements are corollaries of the per-format theorems (C02–C07, C17), re-exported
  below for the path from each producer to its consumer. Tool level: the file-path → URL mapping of gen-bundle
  (fix F12) is modelled and proved injective / fragment-free; flag parsing, PEM decoding, http.ServeFile and the
  file system are exercised through the real binaries only (see MANIFEST: partial).
-/
namespace WebPkg.C20
open WebPkg.PathUrl

/-- T1: every file name maps to a URL without fragment, query, space or quote: the bundle gen-bundle writes
    never contains a URL the reader refuses for those reasons, whatever the file is called -/
theorem url_has_no_fragment_or_query (rel : Bytes) :
    ∀ c ∈ escapePath rel, c ≠ 35 ∧ c ≠ 63 ∧ c ≠ 32 ∧ c ≠ 34 ∧ 33 ≤ c ∧ c ≤ 126 := escapePath_safe rel

/-- T2: distinct relative paths get distinct URLs (exactly one exchange per regular file, none merged) -/
theorem url_injective (base a b : Bytes) (ha : a ≠ [46]) (hb : b ≠ [46]) (h : pathToURL base a = pathToURL base b) : a = b :=
  pathToURL_injective base a b ha hb h

/-- T3: the URL percent-decodes back to the file's relative path (the URL is the base joined with the
    percent-encoded relative path) -/
theorem url_decodes_to_path (rel : Bytes) : unescape (escapePath rel) = some rel := unescape_escapePath rel

/-- T4: directory structure is preserved: encoding distributes over concatenation and never touches "/" -/
theorem url_keeps_directories (a b : Bytes) : escapePath (a ++ [47] ++ b) = escapePath a ++ [47] ++ escapePath b := by
  rw [escapePath_append, escapePath_append]
  congr 2

/-- T5 (composition, library level): gen-bundle's writer output is a well-formed bundle (so dump-bundle's reader
    and sign-bundle's reader, which are the same `bundle.Read`, are handed well-formed input) -/
theorem gen_bundle_output_wellFormed (b : Bundle.Bundle) (out : Bytes) (h : Bundle.write b = .ok (.ok out))
    (hlen : out.length < 2 ^ 64) : Spec.Bundle.WellFormed b.version out := C04.write_wellFormed b out h hlen

/-- T6 (composition): gen-certurl output is accepted by dump-certurl's reader -/
theorem gen_certurl_accepted (parseOk : Bytes → Bool) (chain : List CertChain.AugCert) (out : Bytes)
    (h : CertChain.write chain = some out) (hp : ∀ a ∈ chain, parseOk a.cert = true)
    (hlen : ∀ a ∈ chain, a.cert.length < 2 ^ 63 ∧ (∀ o, a.ocsp = some o → o.length < 2 ^ 63) ∧ (∀ s, a.sct = some s → s.length < 2 ^ 63))
    (hn : chain.length + 1 < 2 ^ 64) : CertChain.read parseOk out = some chain := C17.read_write parseOk chain out h hp hlen hn

/-- T7 (composition): what sign-bundle integrity-block writes is block ‖ original file, so stripping the block
    gives back exactly the bundle gen-bundle produced -/
theorem integrity_block_keeps_bundle (H512 : Bytes → Bytes) (sign : Bytes → Option Bytes) (edVerify : Bytes → Bytes → Bytes → Bool)
    (pk file out : Bytes) (h : IB.signFile H512 sign edVerify pk file = .ok (some out)) :
    ∃ blockBytes, out = blockBytes ++ file := by
  obtain ⟨bb, _, h1, _⟩ := C07.output_layout H512 sign edVerify pk file out h
  exact ⟨bb, h1⟩

/-! ### the directory walk of `gen-bundle -dir` (Model/DirWalk.lean), for every well-formed file-system tree -/
open WebPkg.DirWalk in
/-- T8: the exchanges `fromDir` creates are exactly those the property asks for: per regular file one 200 exchange at its own URL
    with its own bytes, or, for a file called index.html, the redirect at its own URL plus its bytes at the directory's slash URL -/
theorem dir_walk_characterisation (base : Bytes) (t : DirWalk.Node) (hwf : DirWalk.WF1 t) (e : DirWalk.Exch) :
    e ∈ DirWalk.walk base [46] t ↔
      (∃ pc ∈ DirWalk.files t, DirWalk.basename pc.1 ≠ DirWalk.idx ∧ e = ⟨pathToURL base pc.1, .body pc.2⟩) ∨
      (∃ pc ∈ DirWalk.files t, DirWalk.basename pc.1 = DirWalk.idx ∧ e = ⟨pathToURL base pc.1, .redirect⟩) ∨
      (∃ pc ∈ DirWalk.files t, DirWalk.basename pc.1 = DirWalk.idx ∧ e = ⟨DirWalk.dirURL base (DirWalk.dirname pc.1), .body pc.2⟩) :=
  DirWalk.walk_characterisation base t hwf e

/-- T9: "for every regular file, exactly one exchange whose URL is the base URL joined with the file's percent-encoded relative
    path and whose body is the file's bytes" -/
theorem dir_walk_each_file_exactly_once (base : Bytes) (t : DirWalk.Node) (hb : base.getLast? = some 47) (hwf : DirWalk.WF t)
    (p c : Bytes) (hpc : (p, c) ∈ DirWalk.files t) (hn : DirWalk.basename p ≠ DirWalk.idx) :
    (DirWalk.walk base [46] t).filter (fun e => e.url = pathToURL base p) = [⟨pathToURL base p, .body c⟩] :=
  DirWalk.each_file_exactly_once base t hb hwf p c hpc hn

/-- T10: "a file named index.html being delivered at its directory's slash URL, with its own URL redirecting there" -/
theorem dir_walk_index_html (base : Bytes) (t : DirWalk.Node) (hb : base.getLast? = some 47) (hwf : DirWalk.WF t)
    (p c : Bytes) (hpc : (p, c) ∈ DirWalk.files t) (hi : DirWalk.basename p = DirWalk.idx) :
    (DirWalk.walk base [46] t).filter (fun e => e.url = pathToURL base p) = [⟨pathToURL base p, .redirect⟩] ∧
    (DirWalk.walk base [46] t).filter (fun e => e.url = DirWalk.dirURL base (DirWalk.dirname p))
      = [⟨DirWalk.dirURL base (DirWalk.dirname p), .body c⟩] :=
  DirWalk.index_html_delivered_at_directory base t hb hwf p c hpc hi

/-- T11: no two exchanges of the walk share a URL (nothing is merged or shadowed in the bundle's index) -/
theorem dir_walk_urls_distinct (base : Bytes) (t : DirWalk.Node) (hb : base.getLast? = some 47) (hwf : DirWalk.WF t) :
    ((DirWalk.walk base [46] t).map (·.url)).Nodup := DirWalk.walk_urls_distinct base t hb hwf

/-- T12: one exchange per regular file plus one per directory that has an index.html — nothing else -/
theorem dir_walk_length (base : Bytes) (t : DirWalk.Node) (hwf : DirWalk.WF1 t) :
    (DirWalk.walk base [46] t).length = (DirWalk.files t).length + (DirWalk.files t).countP (fun pc => DirWalk.basename pc.1 == DirWalk.idx) :=
  DirWalk.walk_length base t hwf

/-- the hypotheses are satisfiable by a non-trivial tree (root with index.html and a.txt, sub/ with `h#x` and index.html) -/
example : DirWalk.WF DirWalk.ex_tree ∧ DirWalk.ex_base.getLast? = some 47 ∧ (DirWalk.walk DirWalk.ex_base [46] DirWalk.ex_tree).length = 6 := by decide

end WebPkg.C20
