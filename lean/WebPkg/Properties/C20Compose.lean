import WebPkg.Properties.C20Base
import WebPkg.Properties.C06
import WebPkg.Proofs.GoTimeSane
/-
  C20 — composition theorems: the per-format theorems (C02, C03, C06, C07, C17 and the `gen-bundle -dir` walk of
  Model/DirWalk.lean) chained along each tool pipeline.

    1.  gen-bundle -dir → bundle.Read (dump-bundle, sign-bundle)   gen_bundle_read_back, gen_bundle_dir_accepted
    2.  gen-signedexchange → dump-signedexchange -verify           gen_signedexchange_verifies(_window),
        gen-certurl → … → dump-signedexchange -verify              gen_certurl_signedexchange_verifies
    3a. sign-bundle signatures-section → dump-bundle               sign_bundle_output_verifies
    3b. gen-bundle -dir → sign-bundle signatures-section → dump-bundle   dir_bundle_signed_verifies
    3c. gen-bundle -dir → sign-bundle integrity-block              dir_bundle_integrity_block
    (gen-certurl → dump-certurl is `C20.gen_certurl_accepted`; nothing to add.)

  Helper lemmas are prefixed `cc_`. Every theorem is followed by an `example` showing its hypotheses are satisfiable, or by a
  comment saying why no closed instance is given.
-/
namespace WebPkg.C20Compose
open WebPkg.PathUrl

/-! ## 1. gen-bundle -dir → bundle.Read (dump-bundle, sign-bundle) -/

/-- header normalisation performed by a write/read round trip (name case-folded then canonicalised, repeated values comma-joined) -/
def normHdrs (h : Http.Headers) : Http.Headers :=
  h.map fun kv => (Http.canonicalKey (Http.lowerAscii kv.1), [Http.joinComma kv.2])

/-- `createExchange` of fromdir.go: what the `responseWriter` recorded after `http.ServeFile` -/
def toExch (hdrs : DirWalk.Exch → Http.Headers) (redirectBody : Bytes) (w : DirWalk.Exch) : Bundle.Exch :=
  { url := w.url,
    resp := match w.kind with
      | .body c => { status := 200, headers := hdrs w, body := c }
      | .redirect => { status := 301, headers := hdrs w, body := redirectBody } }

/-- gen-bundle `main`: `b := &bundle.Bundle{Version, PrimaryURL, ManifestURL}; b.Exchanges = es` (no signatures section) -/
def bundleOfWalk (ver : Bundle.BVer) (primary manifest : Option Bytes) (hdrs : DirWalk.Exch → Http.Headers)
    (redirectBody : Bytes) (es : List DirWalk.Exch) : Bundle.Bundle :=
  { version := ver, primaryURL := primary, exchanges := es.map (toExch hdrs redirectBody),
    manifestURL := manifest, signatures := none }

/-- what must come back for a walk exchange `w`: same URL, the status and body ServeFile produced, normalised headers -/
def Delivered (hdrs : DirWalk.Exch → Http.Headers) (redirectBody : Bytes) (w : DirWalk.Exch) (e' : Bundle.Exch) : Prop :=
  e'.url = w.url ∧
  (match w.kind with
   | .body c => e'.resp.status = 200 ∧ e'.resp.body = c
   | .redirect => e'.resp.status = 301 ∧ e'.resp.body = redirectBody) ∧
  e'.resp.headers.Perm (normHdrs (hdrs w))

theorem cc_filter_unique (l : List Bundle.Exch) (hn : (l.map (·.url)).Nodup) (e : Bundle.Exch) (he : e ∈ l) :
    l.filter (fun x => x.url = e.url) = [e] := by
  induction l with
  | nil => simp at he
  | cons a rest ih =>
    simp only [List.map_cons, List.nodup_cons] at hn
    obtain ⟨hna, hnr⟩ := hn
    rcases List.mem_cons.mp he with rfl | he'
    · have : rest.filter (fun x => decide (x.url = e.url)) = [] := by
        rw [List.filter_eq_nil_iff]
        intro x hx hxe
        exact hna (List.mem_map.mpr ⟨x, hx, by simpa using hxe⟩)
      simp [this]
    · have hne : a.url ≠ e.url := fun h => hna (h ▸ List.mem_map.mpr ⟨e, he', rfl⟩)
      simp [hne, ih hnr he']

/-- from the index-ordered (`σ`) form of the round trip to a membership form, both directions -/
theorem cc_back {R : Bundle.Exch → Bundle.Exch → Prop} (es σ l' : List Bundle.Exch) (hσ : σ.Perm es)
    (hl : l'.length = σ.length)
    (h : ∀ i (hi : i < σ.length), ∃ e', l'[i]? = some e' ∧ R σ[i] e') :
    (∀ e ∈ es, ∃ e' ∈ l', R e e') ∧ (∀ e' ∈ l', ∃ e ∈ es, R e e') := by
  constructor
  · intro e he
    obtain ⟨i, hi, rfl⟩ := List.mem_iff_getElem.mp (hσ.mem_iff.mpr he)
    obtain ⟨e', h1, h2⟩ := h i hi
    exact ⟨e', List.mem_of_getElem? h1, h2⟩
  · intro e' he'
    obtain ⟨i, hi, rfl⟩ := List.mem_iff_getElem.mp he'
    obtain ⟨e'', h1, h2⟩ := h i (hl ▸ hi)
    rw [List.getElem?_eq_getElem hi] at h1
    injection h1 with h1
    subst h1
    exact ⟨σ[i], hσ.mem_iff.mp (List.getElem_mem _), h2⟩

/-- the hypotheses about the *inputs* of gen-bundle under which the bundle it builds is in the domain of
    `C03.read_write` (`Bundle.RDomG`): they are what `bundle.Read` checks and `WriteTo` does not.
    (`urlsDistinct`, `status`, `certsOk`, `authIdx` of `RDomG` are *derived*: see `cc_rdomG`.) -/
structure GenDom (url : Bundle.BUrlFacts) (ver : Bundle.BVer) (primary manifest : Option Bytes)
    (hdrs : DirWalk.Exch → Http.Headers) (es : List DirWalk.Exch) : Prop where
  /-- `net/url.Parse` accepts every exchange URL, finds no fragment and no credentials, and prints it unchanged.
      The real tool satisfies this: the URL is `baseURL.ResolveReference(&url.URL{Path: rel}).String()` (fix F12), which
      percent-encodes `#`, `?`, `%`, space (`C20.url_has_no_fragment_or_query`); it can be violated only through `-baseURL`
      (a base URL with `user:pw@` — ResolveReference keeps the credentials — makes the reader refuse the bundle). -/
  urlsOk : ∀ w ∈ es, ∃ isAbs, url w.url = some (false, false, isAbs, w.url)
  /-- `-primaryURL` parses and prints as itself; for b2 (where it is written to the `primary` section) it is absolute
      without fragment and credentials. gen-bundle only checks `url.Parse` succeeds, so `-primaryURL 'a#b'` violates it. -/
  primaryOk : ∀ u, primary = some u → ∃ frag user abs, url u = some (frag, user, abs, u) ∧
    (ver = .b2 → frag = false ∧ user = false ∧ abs = true)
  /-- `-manifestURL` (b1 only) is absolute without fragment and credentials -/
  manifestOk : ∀ u, manifest = some u → url u = some (false, false, true, u)
  /-- header names and values in the response are ASCII and no name starts with `:` (the reader refuses non-ASCII fields
      and treats `:`-names as pseudo headers). What `http.ServeFile` itself sets (Content-Type, Last-Modified, Accept-Ranges,
      Content-Length, `Location: ./`) always satisfies this; `-headerOverride 'X: é'` or `-headerOverride ':x: y'` violates
      it (the bundle is then written but refused by dump-bundle / sign-bundle). -/
  hdrAscii : ∀ w ∈ es, ∀ kv ∈ hdrs w,
    Http.isAscii kv.1 = true ∧ (∀ v ∈ kv.2, Http.isAscii v = true) ∧ kv.1.head? ≠ some 58

theorem cc_map_url (hdrs : DirWalk.Exch → Http.Headers) (rb : Bytes) (es : List DirWalk.Exch) :
    (es.map (toExch hdrs rb)).map (·.url) = es.map (·.url) := by
  rw [List.map_map]; rfl

/-- the bundle gen-bundle builds is in the reader's domain -/
theorem cc_rdomG (url : Bundle.BUrlFacts) (parseOk : Bytes → Bool) (ver : Bundle.BVer) (primary manifest : Option Bytes)
    (hdrs : DirWalk.Exch → Http.Headers) (rb : Bytes) (es : List DirWalk.Exch)
    (hd : GenDom url ver primary manifest hdrs es) (hnd : (es.map (·.url)).Nodup) :
    Bundle.RDomG url parseOk (bundleOfWalk ver primary manifest hdrs rb es) where
  urlsOk := by
    intro e he
    obtain ⟨w, hw, rfl⟩ := List.mem_map.mp he
    exact hd.urlsOk w hw
  urlsDistinct := by
    show ((es.map (toExch hdrs rb)).map (·.url)).Nodup
    rw [cc_map_url]; exact hnd
  primaryOk := hd.primaryOk
  manifestOk := hd.manifestOk
  status := by
    intro e he
    obtain ⟨w, hw, rfl⟩ := List.mem_map.mp he
    unfold toExch
    cases w.kind
    · show (100:Int) ≤ 200 ∧ (200:Int) ≤ 999; decide
    · show (100:Int) ≤ 301 ∧ (301:Int) ≤ 999; decide
  hdrAscii := by
    intro e he
    obtain ⟨w, hw, rfl⟩ := List.mem_map.mp he
    have := hd.hdrAscii w hw
    unfold toExch
    cases w.kind <;> exact this
  certsOk := by intro s hs; cases hs
  authIdx := by intro s hs; cases hs

/-- **generic form** (any exchange list with pairwise distinct URLs, e.g. also `-URLList` / `-har` input without
    repeated URLs): what gen-bundle wrote is read back by `bundle.Read` as one exchange per input exchange. -/
theorem gen_bundle_read_back (url : Bundle.BUrlFacts) (parseOk : Bytes → Bool) (ver : Bundle.BVer)
    (primary manifest : Option Bytes) (hdrs : DirWalk.Exch → Http.Headers) (rb : Bytes) (es : List DirWalk.Exch) (out : Bytes)
    (hd : GenDom url ver primary manifest hdrs es) (hnd : (es.map (·.url)).Nodup)
    (hw : Bundle.write (bundleOfWalk ver primary manifest hdrs rb es) = .ok (.ok out)) (hlen : out.length < 2 ^ 63) :
    ∃ b', Bundle.read url parseOk out = .ok b' ∧ b'.version = ver ∧ b'.primaryURL = primary ∧
      b'.manifestURL = manifest ∧ b'.signatures = none ∧
      b'.exchanges.length = es.length ∧
      (b'.exchanges.map (·.url)).Perm (es.map (·.url)) ∧
      (∀ w ∈ es, ∃ e', b'.exchanges.filter (fun e => e.url = w.url) = [e'] ∧ Delivered hdrs rb w e') ∧
      (∀ e' ∈ b'.exchanges, ∃ w ∈ es, Delivered hdrs rb w e') := by
  obtain ⟨b', h1, h2, h3, h4, h5, σ, hσ, hl, hu, hi⟩ :=
    C03.read_write url parseOk _ out (cc_rdomG url parseOk ver primary manifest hdrs rb es hd hnd) hw hlen
  have hperm : (b'.exchanges.map (·.url)).Perm (es.map (·.url)) := by
    rw [hu, ← cc_map_url hdrs rb es]
    exact hσ.map _
  have hnd' : (b'.exchanges.map (·.url)).Nodup := hperm.nodup_iff.mpr hnd
  obtain ⟨hA, hB⟩ := cc_back (R := fun e e' => e'.url = e.url ∧ e'.resp.status = e.resp.status ∧
      e'.resp.body = e.resp.body ∧ e'.resp.headers.Perm (normHdrs e.resp.headers))
    (es.map (toExch hdrs rb)) σ b'.exchanges hσ hl hi
  have hdel : ∀ w e', (e'.url = (toExch hdrs rb w).url ∧ e'.resp.status = (toExch hdrs rb w).resp.status ∧
      e'.resp.body = (toExch hdrs rb w).resp.body ∧ e'.resp.headers.Perm (normHdrs (toExch hdrs rb w).resp.headers)) →
      Delivered hdrs rb w e' := by
    intro w e'
    unfold toExch Delivered
    cases w.kind <;> exact fun ⟨a, b, c, d⟩ => ⟨a, ⟨b, c⟩, d⟩
  refine ⟨b', h1, h2, h3, h4, h5, ?_, hperm, ?_, ?_⟩
  · rw [hl, hσ.length_eq]; exact List.length_map _
  · intro w hw
    obtain ⟨e', he', hr⟩ := hA _ (List.mem_map.mpr ⟨w, hw, rfl⟩)
    have hd' := hdel w e' hr
    refine ⟨e', ?_, hd'⟩
    rw [← hd'.1]
    exact cc_filter_unique _ hnd' e' he'
  · intro e' he'
    obtain ⟨e, he, hr⟩ := hB e' he'
    obtain ⟨w, hw, rfl⟩ := List.mem_map.mp he
    exact ⟨w, hw, hdel w e' hr⟩

/-- **Theorem 1 (gen-bundle -dir → dump-bundle / sign-bundle reader).**
    `t` is the directory tree, `base` the `-baseURL`; the bundle is what gen-bundle's `main` assembles from `fromDir`'s
    exchanges (`bundleOfWalk`), for either format version, with `-primaryURL` / `-manifestURL`. If `WriteTo` succeeded with
    output `out`, then `bundle.Read` (the reader of dump-bundle *and* of sign-bundle) accepts `out`, returns the same version,
    primary and manifest URL and no signatures section, and in the exchanges it returns
    * every regular file `p` not called index.html has **exactly one** exchange at `pathToURL base p`; it has status 200 and the
      file's bytes as body (and ServeFile's headers, normalised);
    * every file called index.html has exactly one exchange at its own URL — the 301 redirect — and exactly one at its
      directory's slash URL, with status 200 and the file's bytes;
    * there is nothing else: the number of exchanges is that of the walk (= #files + #index.html files), and every exchange
      read back is one of the three kinds above.
    Hypotheses. `hb` (base ends in `/`): `pathToURL` models `ResolveReference` by concatenation, which is what it does for a
    base whose path ends in `/` (for `-baseURL https://e/x` Go drops the last segment `x`; outside the model).
    `hwf`: the tree is a file-system tree (legal, pairwise distinct names; no directory called index.html — for such a
    directory ServeFile emits a listing, outside the model). `hd : GenDom`: see there. `hlen`: a Go slice length.
    There is **no** URL-length or exchange-count hypothesis: they are implied by `hw`/`hlen`. -/
theorem gen_bundle_dir_accepted (url : Bundle.BUrlFacts) (parseOk : Bytes → Bool) (ver : Bundle.BVer)
    (primary manifest : Option Bytes) (hdrs : DirWalk.Exch → Http.Headers) (rb : Bytes) (base : Bytes) (t : DirWalk.Node)
    (out : Bytes) (hb : base.getLast? = some 47) (hwf : DirWalk.WF t)
    (hd : GenDom url ver primary manifest hdrs (DirWalk.walk base [46] t))
    (hw : Bundle.write (bundleOfWalk ver primary manifest hdrs rb (DirWalk.walk base [46] t)) = .ok (.ok out))
    (hlen : out.length < 2 ^ 63) :
    ∃ b', Bundle.read url parseOk out = .ok b' ∧ b'.version = ver ∧ b'.primaryURL = primary ∧
      b'.manifestURL = manifest ∧ b'.signatures = none ∧
      b'.exchanges.length = (DirWalk.walk base [46] t).length ∧
      b'.exchanges.length = (DirWalk.files t).length +
        (DirWalk.files t).countP (fun pc => DirWalk.basename pc.1 == DirWalk.idx) ∧
      (∀ p c, (p, c) ∈ DirWalk.files t → DirWalk.basename p ≠ DirWalk.idx →
        ∃ e', b'.exchanges.filter (fun e => e.url = pathToURL base p) = [e'] ∧ e'.url = pathToURL base p ∧
          e'.resp.status = 200 ∧ e'.resp.body = c ∧
          e'.resp.headers.Perm (normHdrs (hdrs ⟨pathToURL base p, .body c⟩))) ∧
      (∀ p c, (p, c) ∈ DirWalk.files t → DirWalk.basename p = DirWalk.idx →
        (∃ r, b'.exchanges.filter (fun e => e.url = pathToURL base p) = [r] ∧ r.url = pathToURL base p ∧
          r.resp.status = 301 ∧ r.resp.body = rb ∧
          r.resp.headers.Perm (normHdrs (hdrs ⟨pathToURL base p, .redirect⟩))) ∧
        (∃ d, b'.exchanges.filter (fun e => e.url = DirWalk.dirURL base (DirWalk.dirname p)) = [d] ∧
          d.url = DirWalk.dirURL base (DirWalk.dirname p) ∧ d.resp.status = 200 ∧ d.resp.body = c ∧
          d.resp.headers.Perm (normHdrs (hdrs ⟨DirWalk.dirURL base (DirWalk.dirname p), .body c⟩)))) ∧
      (∀ e' ∈ b'.exchanges,
        (∃ pc ∈ DirWalk.files t, DirWalk.basename pc.1 ≠ DirWalk.idx ∧
          Delivered hdrs rb ⟨pathToURL base pc.1, .body pc.2⟩ e') ∨
        (∃ pc ∈ DirWalk.files t, DirWalk.basename pc.1 = DirWalk.idx ∧
          Delivered hdrs rb ⟨pathToURL base pc.1, .redirect⟩ e') ∨
        (∃ pc ∈ DirWalk.files t, DirWalk.basename pc.1 = DirWalk.idx ∧
          Delivered hdrs rb ⟨DirWalk.dirURL base (DirWalk.dirname pc.1), .body pc.2⟩ e')) := by
  have hnd := DirWalk.walk_urls_distinct base t hb hwf
  have hwf1 := DirWalk.dw_WF_WF1 t hwf
  obtain ⟨b', h1, h2, h3, h4, h5, h6, _, hA, hB⟩ :=
    gen_bundle_read_back url parseOk ver primary manifest hdrs rb _ out hd hnd hw hlen
  refine ⟨b', h1, h2, h3, h4, h5, h6, ?_, ?_, ?_, ?_⟩
  · rw [h6]; exact DirWalk.walk_length base t hwf1
  · intro p c hpc hn
    have hmem : (⟨pathToURL base p, .body c⟩ : DirWalk.Exch) ∈ DirWalk.walk base [46] t :=
      (DirWalk.walk_characterisation base t hwf1 _).mpr (Or.inl ⟨(p, c), hpc, hn, rfl⟩)
    obtain ⟨e', hf, hu, hs, hh⟩ := hA _ hmem
    exact ⟨e', hf, hu, hs.1, hs.2, hh⟩
  · intro p c hpc hi
    have hm1 : (⟨pathToURL base p, .redirect⟩ : DirWalk.Exch) ∈ DirWalk.walk base [46] t :=
      (DirWalk.walk_characterisation base t hwf1 _).mpr (Or.inr (Or.inl ⟨(p, c), hpc, hi, rfl⟩))
    have hm2 : (⟨DirWalk.dirURL base (DirWalk.dirname p), .body c⟩ : DirWalk.Exch) ∈ DirWalk.walk base [46] t :=
      (DirWalk.walk_characterisation base t hwf1 _).mpr (Or.inr (Or.inr ⟨(p, c), hpc, hi, rfl⟩))
    obtain ⟨r, hf, hu, hs, hh⟩ := hA _ hm1
    obtain ⟨d, hf', hu', hs', hh'⟩ := hA _ hm2
    exact ⟨⟨r, hf, hu, hs.1, hs.2, hh⟩, ⟨d, hf', hu', hs'.1, hs'.2, hh'⟩⟩
  · intro e' he'
    obtain ⟨w, hw', hdel⟩ := hB e' he'
    rcases (DirWalk.walk_characterisation base t hwf1 w).mp hw' with ⟨pc, hpc, hn, rfl⟩ | ⟨pc, hpc, hn, rfl⟩ | ⟨pc, hpc, hn, rfl⟩
    · exact Or.inl ⟨pc, hpc, hn, hdel⟩
    · exact Or.inr (Or.inl ⟨pc, hpc, hn, hdel⟩)
    · exact Or.inr (Or.inr ⟨pc, hpc, hn, hdel⟩)


/-! ### non-vacuity of Theorem 1: a directory containing just `index.html` ("hi"), `-baseURL https://a.b/`, b2 -/
section Example1
open WebPkg.Bundle WebPkg.Cbor

/-- "https://a.b/" -/
def ex_base : Bytes := brt_exUrl
/-- a directory whose only entry is the regular file index.html with content "hi" -/
def ex_tree : DirWalk.Node := .dir [(DirWalk.idx, .file [104, 105])]
/-- `net/url.Parse` facts used in the examples: everything parses as an absolute URL without fragment and credentials -/
def ex_url : BUrlFacts := fun s => some (false, false, true, s)
/-- the bundle gen-bundle assembles (ServeFile's headers left out: `hdrs = fun _ => []`; empty redirect body) -/
def ex_bundle : Bundle :=
  bundleOfWalk .b2 (some ex_base) none (fun _ => []) [] (DirWalk.walk ex_base [46] ex_tree)

/-- the walk: index.html's bytes at the directory URL, the redirect at index.html's own URL -/
theorem cc_ex_walk : DirWalk.walk ex_base [46] ex_tree =
    [⟨ex_base, .body [104, 105]⟩, ⟨ex_base ++ DirWalk.idx, .redirect⟩] := by decide

theorem cc_ex_bundle : ex_bundle =
    { version := .b2, primaryURL := some ex_base,
      exchanges := [{ url := ex_base, resp := { status := 200, headers := [], body := [104, 105] } },
                    { url := ex_base ++ DirWalk.idx, resp := { status := 301, headers := [], body := [] } }],
      manifestURL := none, signatures := none } := by
  unfold ex_bundle; rw [cc_ex_walk]; rfl

theorem cc_encodeResponse_nohdr (st : Int) (body : Bytes) :
    encodeResponse { status := st, headers := [], body := body } =
      .ok (encodeArrayHeader 2 ++ encodeBytes (encodeMapHeader 1 ++
        (encodeBytes Sxg.keyStatus ++ encodeBytes (SH.formatInt st))) ++ encodeBytes body) := by
  unfold encodeResponse encodeRespHeader
  simp only [Sxg.headerEntries, List.map_nil, brt_encodeMap_single]
  rfl

def cc_idxVal (n : IndexEntry) : Bytes := encodeArrayHeader 2 ++ [encodeUint n.offset ++ encodeUint n.length].flatten

/-- the b2 index section for two resources given in index order (`EncodeMap` goes through `List.mergeSort`, which neither
    `decide` nor the kernel evaluates; `CertChain.encodeMap_of_sorted` gives the closed form instead) -/
theorem cc_finalize2 (n1 n2 : IndexEntry) (hne : (n1.url == n2.url) = false)
    (hu1 : utf8Valid n1.url = true) (hu2 : utf8Valid n2.url = true)
    (hk : tstr n1.url ≠ tstr n2.url) (hle : ble (tstr n1.url) (tstr n2.url) = true) :
    finalizeIndex .b2 [n1, n2] = .ok (.ok (encodeHead 5 2 ++
      (tstr n1.url ++ cc_idxVal n1 ++ (tstr n2.url ++ cc_idxVal n2)))) := by
  have hg : groupByUrl [n1, n2] [] = [(n1.url, [n1]), (n2.url, [n2])] := by
    simp [groupByUrl, hne]
  unfold finalizeIndex
  simp only [hg, List.any_cons, List.any_nil, hu1, hu2, Bool.not_true, Bool.or_false, Bool.false_eq_true, if_false,
    List.length_cons, List.length_nil, List.map_cons, List.map_nil]
  rw [if_neg (by simp)]
  have hm := CertChain.encodeMap_of_sorted [(tstr n1.url, cc_idxVal n1), (tstr n2.url, cc_idxVal n2)] _ (List.Perm.refl _)
    (by simp [hk]) (by simp [entryLe, hle])
  simp only [cc_idxVal] at hm ⊢
  rw [hm]
  simp

/-- `WriteTo` succeeds on the example -/
theorem cc_ex_write : ∃ out, write ex_bundle = .ok (.ok out) ∧ out.length < 2 ^ 63 := by
  have hu1 : utf8Valid ex_base = true := by decide +kernel
  have hu2 : utf8Valid (ex_base ++ DirWalk.idx) = true := by decide +kernel
  rw [cc_ex_bundle, write_eq]
  simp only [addExchanges, cc_encodeResponse_nohdr, List.nil_append, List.cons_append]
  rw [cc_finalize2 _ _ (by decide +kernel) hu1 hu2 (by decide +kernel) (by decide +kernel)]
  dsimp only
  unfold writeTail primarySec manifestSec sigsSec headOf encodeUrlSection encodeText
  simp only [hu1, if_true]
  exact ⟨_, rfl, by decide +kernel⟩

theorem cc_ex_dom : GenDom ex_url .b2 (some ex_base) none (fun _ => []) (DirWalk.walk ex_base [46] ex_tree) where
  urlsOk := fun _ _ => ⟨true, rfl⟩
  primaryOk := fun _ _ => ⟨false, false, true, rfl, fun _ => ⟨rfl, rfl, rfl⟩⟩
  manifestOk := fun _ h => by cases h
  hdrAscii := fun _ _ _ h => by cases h

/-- all hypotheses of `gen_bundle_dir_accepted` hold together on the example, and its conclusion, instantiated: two
    exchanges come back — index.html's bytes with status 200 at https://a.b/ and the 301 at https://a.b/index.html -/
example : ∃ out b', write ex_bundle = .ok (.ok out) ∧ read ex_url (fun _ => true) out = .ok b' ∧
    b'.exchanges.length = 2 ∧
    (∃ d, b'.exchanges.filter (fun e => e.url = ex_base) = [d] ∧ d.resp.status = 200 ∧ d.resp.body = [104, 105]) ∧
    (∃ r, b'.exchanges.filter (fun e => e.url = ex_base ++ DirWalk.idx) = [r] ∧ r.resp.status = 301) := by
  obtain ⟨out, hw, hl⟩ := cc_ex_write
  obtain ⟨b', hr, _, _, _, _, hlen, _, _, hidx, _⟩ :=
    gen_bundle_dir_accepted ex_url (fun _ => true) .b2 (some ex_base) none (fun _ => []) [] ex_base ex_tree out
      (by decide) (by decide) cc_ex_dom hw hl
  obtain ⟨⟨r, hr1, _, hr2, _⟩, ⟨d, hd1, _, hd2, hd3, _⟩⟩ :=
    hidx DirWalk.idx [104, 105] (by decide) (by decide)
  refine ⟨out, b', hw, hr, ?_, ⟨d, ?_, hd2, hd3⟩, ⟨r, ?_, hr2⟩⟩
  · rw [hlen, cc_ex_walk]; rfl
  · rw [← hd1]; rfl
  · rw [← hr1]; rfl

end Example1

/-! ## 2. gen-signedexchange → dump-signedexchange -verify -/
section SxgPipeline
open WebPkg.Sxg WebPkg.Http

/-- two canonical names that agree after case folding are equal, when one of them is a token -/
theorem cc_lower_inj (n ck : Bytes) (hc : canonicalKey n = n) (hk : ck.all validHeaderFieldByte = true)
    (hck : canonicalKey ck = ck) (h : lowerAscii n = lowerAscii ck) : n = ck := by
  have h1 : (canonicalKey (lowerAscii n) == ck) = true := by
    rw [h, inv_canonicalKey_lowerAscii ck hk, hck]; exact beq_self_eq_true ck
  rw [inv_key_match n ck hc hk] at h1
  exact eq_of_beq h1

theorem cc_add_keys (h : Headers) (k v : Bytes) :
    (add h k v).map (·.1) =
      if h.any (fun x => x.1 == canonicalKey k) = true then h.map (·.1) else h.map (·.1) ++ [canonicalKey k] := by
  rw [inv_add_eq]
  by_cases hany : h.any (fun x => x.1 == canonicalKey k) = true
  · rw [if_pos hany, if_pos hany, List.map_map]
    apply List.map_congr_left
    intro x _
    exact inv_addAt_key _ _ x
  · rw [if_neg hany, if_neg hany, List.map_append]; rfl

theorem cc_add_key_mem (h : Headers) (k v : Bytes) (kv : Bytes × List Bytes) (hkv : kv ∈ add h k v) :
    (∃ kv0 ∈ h, kv.1 = kv0.1) ∨ kv.1 = canonicalKey k := by
  have hm : kv.1 ∈ (add h k v).map (·.1) := List.mem_map.mpr ⟨kv, hkv, rfl⟩
  rw [cc_add_keys] at hm
  by_cases hany : h.any (fun x => x.1 == canonicalKey k) = true
  · rw [if_pos hany] at hm
    obtain ⟨kv0, h0, e⟩ := List.mem_map.mp hm
    exact Or.inl ⟨kv0, h0, e.symm⟩
  · rw [if_neg hany] at hm
    rcases List.mem_append.mp hm with hm | hm
    · obtain ⟨kv0, h0, e⟩ := List.mem_map.mp hm
      exact Or.inl ⟨kv0, h0, e.symm⟩
    · exact Or.inr (List.mem_singleton.mp hm)

/-- `Header.Add` with a token name keeps the map "as Go builds it" -/
theorem cc_canonKeys_add (h : Headers) (k v : Bytes) (hc : CanonKeys h)
    (hk : (canonicalKey k).all validHeaderFieldByte = true) (hck : canonicalKey (canonicalKey k) = canonicalKey k) :
    CanonKeys (add h k v) := by
  constructor
  · intro kv hkv
    rcases cc_add_key_mem h k v kv hkv with ⟨kv0, h0, e⟩ | e
    · rw [e]; exact hc.canon kv0 h0
    · rw [e]; exact hck
  · have e : (add h k v).map (fun kv => lowerAscii kv.1) = ((add h k v).map (·.1)).map lowerAscii := by
      rw [List.map_map]; rfl
    have e0 : h.map (fun kv => lowerAscii kv.1) = (h.map (·.1)).map lowerAscii := by
      rw [List.map_map]; rfl
    rw [e, cc_add_keys]
    by_cases hany : h.any (fun x => x.1 == canonicalKey k) = true
    · rw [if_pos hany, ← e0]; exact hc.distinct
    · rw [if_neg hany, List.map_append, ← e0, List.nodup_append]
      refine ⟨hc.distinct, by simp, ?_⟩
      intro a ha b hb hab
      simp only [List.map_cons, List.map_nil, List.mem_singleton] at hb
      subst hb
      obtain ⟨kv0, h0, rfl⟩ := List.mem_map.mp ha
      have := cc_lower_inj kv0.1 (canonicalKey k) (hc.canon kv0 h0) hk hck hab
      exact hany (List.any_eq_true.mpr ⟨kv0, h0, by simp [this]⟩)

theorem cc_names_ok (enc : Mice.Enc) :
    (canonicalKey hContentEncoding).all validHeaderFieldByte = true ∧
    canonicalKey (canonicalKey hContentEncoding) = canonicalKey hContentEncoding ∧
    isAscii (canonicalKey hContentEncoding) = true ∧
    (canonicalKey enc.digestHeaderName).all validHeaderFieldByte = true ∧
    canonicalKey (canonicalKey enc.digestHeaderName) = canonicalKey enc.digestHeaderName ∧
    isAscii (canonicalKey enc.digestHeaderName) = true := by
  cases enc <;> decide +kernel

/-- what the signer did to the response header map keeps it in the domain of the writer/reader and canonical -/
theorem cc_signed_headers (h : Headers) (enc : Mice.Enc) (v1 v2 : Bytes) :
    (CanonKeys h → CanonKeys (add (add h hContentEncoding v1) enc.digestHeaderName v2)) ∧
    ((∀ kv ∈ h, isAscii kv.1 = true) → ∀ kv ∈ add (add h hContentEncoding v1) enc.digestHeaderName v2, isAscii kv.1 = true) := by
  obtain ⟨a1, a2, a3, b1, b2, b3⟩ := cc_names_ok enc
  constructor
  · intro hc
    exact cc_canonKeys_add _ _ _ (cc_canonKeys_add _ _ _ hc a1 a2) b1 b2
  · intro ha kv hkv
    rcases cc_add_key_mem _ _ _ kv hkv with ⟨kv0, h0, e⟩ | e
    · rw [e]
      rcases cc_add_key_mem _ _ _ kv0 h0 with ⟨kv1, h1, e1⟩ | e1
      · rw [e1]; exact ha kv1 h1
      · rw [e1]; exact a3
    · rw [e]; exact b3

/-- **Theorem 2 (gen-signedexchange → dump-signedexchange -verify).**
    `e0` is the exchange gen-signedexchange builds from its flags (`NewExchange`), `e1` after `MiEncodePayload(rs)`, `e2` after
    `AddSignatureHeader` for the signature bytes `sig` that the signing algorithm returned for the message `msg`; `out` is what
    `e.Write(f)` wrote. Then `ReadExchange` reads `out` back and `Verify` accepts what was read, returning the ORIGINAL payload,
    at every verification time `t` that passes the window test — `timestampsOk`, i.e. (see `…_window`) every instant of
    [date, expires] when the lifetime is at most 7 days.
    Hypotheses are those of `C02.honest_verifies` (signing side; `hsv` = "the signature oracle is correct for the signer's
    key", `hlen` = SHA-256 digests have 32 bytes), plus, for the file round trip, those of `C02.read_write` /
    `C02.verify_invariant` stated on the tool's INPUT `e0` (not on `e2`; the transfer is `cc_signed_headers`):
    `hd : Dom env.url e0` (absolute https URL — checked by the reader only; status is a Go int; ASCII header names — a
    `-responseHeader 'é: x'` violates it) and `hc1 : CanonKeys e0.respHeaders` (the map is as `http.Header.Add` builds it:
    always true in the tool, which fills the map through `resHeader.Add`). `verify_invariant`'s hypothesis about stateful
    request headers is implied by `hpolicy`. No length hypothesis: implied by `hw`. -/
theorem gen_signedexchange_verifies (env : Env) (hlen : ∀ x, (env.H x).length = 32)
    (e0 e1 e2 : Exchange) (rs : Nat) (hrs : 1 ≤ rs) (hrs2 : rs ≤ 16384)
    (sig validityUrl certUrl certBytes : Bytes) (main : CertChain.AugCert) (rest : List CertChain.AugCert)
    (date expires : Int) (msg : Bytes)
    (hmi : miEncodePayload env.H e0 rs = some e1)
    (hmsg : signedMessage e1 (some (env.H main.cert)) validityUrl date expires = some msg)
    (hsign : addSignatureHeader e1 sig validityUrl certUrl (env.H main.cert) date expires = some e2)
    (hfetch : env.fetch certUrl = some certBytes) (hchain : CertChain.read env.parseOk certBytes = some (main :: rest))
    (hkey : env.keyOk main.cert = true) (hsv : env.sigVerify main.cert msg sig = true)
    (hurl : ∃ vu ru, env.url validityUrl = some vu ∧ env.url e0.uri = some ru ∧ sameOrigin vu ru = true)
    (hint : -(2:Int)^63 ≤ date ∧ date < (2:Int)^63 ∧ -(2:Int)^63 ≤ expires ∧ expires < (2:Int)^63)
    (hpolicy : headersOk e1 = true ∧ ((e0.version = .b1 ∨ e0.version = .b2) → (e0.method = mGET ∨ e0.method = mHEAD)) ∧
       (e0.version = .b3 → isCacheable env e1 = true ∧ joined e1.respHeaders hContentType ≠ []))
    (out : Bytes) (hd : Dom env.url e0) (hc1 : CanonKeys e0.respHeaders) (hw : write e2 = .ok out) :
    ∃ e', read env.url out = .ok e' ∧ e'.uri = e0.uri ∧ e'.status = e0.status ∧
      ∀ t : GoTime.T, timestampsOk
        { label := kLabel, sig := sig, integrity := e0.version.mice.integrityIdentifier, certUrl := certUrl,
          certSha256 := env.H main.cert, validityUrl := validityUrl, date := date, expires := expires } t = true →
        verify env e' t = some e0.payload := by
  have he1 := honest_miEncodePayload_eq env.H e0 e1 rs hmi
  obtain ⟨sh, _, he2⟩ := honest_addSignatureHeader_eq e1 e2 sig validityUrl certUrl (env.H main.cert) date expires hsign
  have hv : e2.version = e0.version := by rw [he2, he1]
  have hu : e2.uri = e0.uri := by rw [he2, he1]
  have hst : e2.status = e0.status := by rw [he2, he1]
  have hrq : e2.reqHeaders = e0.reqHeaders := by rw [he2, he1]
  have hrq1 : e1.reqHeaders = e0.reqHeaders := by rw [he1]
  have hrs' : e2.respHeaders = add (add e0.respHeaders hContentEncoding e0.version.mice.name)
      e0.version.mice.digestHeaderName (Mice.encode env.H e0.version.mice e0.payload rs).2 := by rw [he2, he1]
  obtain ⟨hck, hasc⟩ := cc_signed_headers e0.respHeaders e0.version.mice e0.version.mice.name
    (Mice.encode env.H e0.version.mice e0.payload rs).2
  have hd2 : Dom env.url e2 :=
    { fallback := by rw [hu]; exact hd.fallback
      status := by rw [hst]; exact hd.status
      asciiReq := by rw [hrq]; exact hd.asciiReq
      asciiResp := by rw [hrs']; exact hasc hd.asciiResp
      noUrlKey := by rw [hv, hrq]; exact hd.noUrlKey }
  have hc2 : CanonKeys e2.respHeaders := by rw [hrs']; exact hck hc1
  have hb3 : e2.version = .b3 → e2.reqHeaders.any (fun kv => isStatefulRequestHeader kv.1) = false := by
    intro _
    have := hpolicy.1
    unfold headersOk at this
    rw [hrq, ← hrq1]
    cases hh : e1.reqHeaders.any (fun kv => isStatefulRequestHeader kv.1) with
    | false => rfl
    | true => rw [hh] at this; cases this
  obtain ⟨e', hr, _, h2, _, h4, _⟩ := C02.read_write env.url e2 out hd2 hw
  refine ⟨e', hr, by rw [h2, hu], by rw [h4, hst], ?_⟩
  intro t htime
  obtain ⟨e'', hr', hvf⟩ := C02.verify_invariant env e2 out t hd2 hw hc2 hb3
  rw [hr] at hr'
  injection hr' with hr'
  subst hr'
  rw [hvf]
  exact C02.honest_verifies env hlen e0 e1 e2 rs hrs hrs2 sig validityUrl certUrl certBytes main rest date expires t msg
    hmi hmsg hsign hfetch hchain hkey hsv hurl htime hint hpolicy

/-- "every instant of [date, expires]": the window test in unix seconds + nanoseconds (lifetime at most 7 days;
    |dates| < 2^62 so that Go's `time.Unix` does not wrap: `GoTimeSane`) -/
theorem cc_window (s : Signature) (ts tn : Int)
    (hd : -(2:Int)^62 ≤ s.date ∧ s.date < (2:Int)^62) (hx : -(2:Int)^62 ≤ s.expires ∧ s.expires < (2:Int)^62)
    (hlife : s.expires - s.date ≤ 604800) (hn : 0 ≤ tn ∧ tn < 1000000000)
    (h1 : s.date ≤ ts) (h2 : ts < s.expires ∨ (ts = s.expires ∧ tn = 0)) :
    timestampsOk s (GoTime.ofUnix ts tn) = true := by
  have ht : -(2:Int)^62 ≤ ts ∧ ts < (2:Int)^62 := by omega
  rw [timestampsOk_iff s ts tn hd hx ht hn]
  omega

/-- Theorem 2, window form: the exchange read back from `out` verifies at every instant `date ≤ t ≤ expires` -/
theorem gen_signedexchange_verifies_window (env : Env) (hlen : ∀ x, (env.H x).length = 32)
    (e0 e1 e2 : Exchange) (rs : Nat) (hrs : 1 ≤ rs) (hrs2 : rs ≤ 16384)
    (sig validityUrl certUrl certBytes : Bytes) (main : CertChain.AugCert) (rest : List CertChain.AugCert)
    (date expires : Int) (msg : Bytes)
    (hmi : miEncodePayload env.H e0 rs = some e1)
    (hmsg : signedMessage e1 (some (env.H main.cert)) validityUrl date expires = some msg)
    (hsign : addSignatureHeader e1 sig validityUrl certUrl (env.H main.cert) date expires = some e2)
    (hfetch : env.fetch certUrl = some certBytes) (hchain : CertChain.read env.parseOk certBytes = some (main :: rest))
    (hkey : env.keyOk main.cert = true) (hsv : env.sigVerify main.cert msg sig = true)
    (hurl : ∃ vu ru, env.url validityUrl = some vu ∧ env.url e0.uri = some ru ∧ sameOrigin vu ru = true)
    (hdate : -(2:Int)^62 ≤ date ∧ date < (2:Int)^62) (hexp : -(2:Int)^62 ≤ expires ∧ expires < (2:Int)^62)
    (hlife : expires - date ≤ 604800)
    (hpolicy : headersOk e1 = true ∧ ((e0.version = .b1 ∨ e0.version = .b2) → (e0.method = mGET ∨ e0.method = mHEAD)) ∧
       (e0.version = .b3 → isCacheable env e1 = true ∧ joined e1.respHeaders hContentType ≠ []))
    (out : Bytes) (hd : Dom env.url e0) (hc1 : CanonKeys e0.respHeaders) (hw : write e2 = .ok out) :
    ∃ e', read env.url out = .ok e' ∧
      ∀ ts tn : Int, 0 ≤ tn ∧ tn < 1000000000 → date ≤ ts → (ts < expires ∨ (ts = expires ∧ tn = 0)) →
        verify env e' (GoTime.ofUnix ts tn) = some e0.payload := by
  obtain ⟨e', hr, _, _, hv⟩ := gen_signedexchange_verifies env hlen e0 e1 e2 rs hrs hrs2 sig validityUrl certUrl certBytes
    main rest date expires msg hmi hmsg hsign hfetch hchain hkey hsv hurl
    ⟨by omega, by omega, by omega, by omega⟩ hpolicy out hd hc1 hw
  refine ⟨e', hr, ?_⟩
  intro ts tn hn h1 h2
  exact hv _ (cc_window _ ts tn hdate hexp hlife hn h1 h2)

/-- **gen-certurl → gen-signedexchange → dump-signedexchange -verify**: Theorem 2 with the hypothesis "the bytes served at
    cert-url parse as a chain headed by the signer's certificate" (`hchain`) discharged by `C17.read_write` from "they are what
    gen-certurl wrote for that chain" (`hcw`); `hp`, `hcl`, `hcn`: C17's hypotheses (x509 accepts each certificate; Go slice
    lengths). -/
theorem gen_certurl_signedexchange_verifies (env : Env) (hlen : ∀ x, (env.H x).length = 32)
    (e0 e1 e2 : Exchange) (rs : Nat) (hrs : 1 ≤ rs) (hrs2 : rs ≤ 16384)
    (sig validityUrl certUrl certBytes : Bytes) (main : CertChain.AugCert) (rest : List CertChain.AugCert)
    (date expires : Int) (msg : Bytes)
    (hmi : miEncodePayload env.H e0 rs = some e1)
    (hmsg : signedMessage e1 (some (env.H main.cert)) validityUrl date expires = some msg)
    (hsign : addSignatureHeader e1 sig validityUrl certUrl (env.H main.cert) date expires = some e2)
    (hfetch : env.fetch certUrl = some certBytes)
    (hcw : CertChain.write (main :: rest) = some certBytes)
    (hp : ∀ a ∈ main :: rest, env.parseOk a.cert = true)
    (hcl : ∀ a ∈ main :: rest, a.cert.length < 2 ^ 63 ∧ (∀ o, a.ocsp = some o → o.length < 2 ^ 63) ∧
      (∀ s, a.sct = some s → s.length < 2 ^ 63))
    (hcn : (main :: rest).length + 1 < 2 ^ 64)
    (hkey : env.keyOk main.cert = true) (hsv : env.sigVerify main.cert msg sig = true)
    (hurl : ∃ vu ru, env.url validityUrl = some vu ∧ env.url e0.uri = some ru ∧ sameOrigin vu ru = true)
    (hint : -(2:Int)^63 ≤ date ∧ date < (2:Int)^63 ∧ -(2:Int)^63 ≤ expires ∧ expires < (2:Int)^63)
    (hpolicy : headersOk e1 = true ∧ ((e0.version = .b1 ∨ e0.version = .b2) → (e0.method = mGET ∨ e0.method = mHEAD)) ∧
       (e0.version = .b3 → isCacheable env e1 = true ∧ joined e1.respHeaders hContentType ≠ []))
    (out : Bytes) (hd : Dom env.url e0) (hc1 : CanonKeys e0.respHeaders) (hw : write e2 = .ok out) :
    CertChain.read env.parseOk certBytes = some (main :: rest) ∧
    ∃ e', read env.url out = .ok e' ∧
      ∀ t : GoTime.T, timestampsOk
        { label := kLabel, sig := sig, integrity := e0.version.mice.integrityIdentifier, certUrl := certUrl,
          certSha256 := env.H main.cert, validityUrl := validityUrl, date := date, expires := expires } t = true →
        verify env e' t = some e0.payload := by
  have hchain := C20.gen_certurl_accepted env.parseOk (main :: rest) certBytes hcw hp hcl hcn
  obtain ⟨e', hr, _, _, hv⟩ := gen_signedexchange_verifies env hlen e0 e1 e2 rs hrs hrs2 sig validityUrl certUrl certBytes
    main rest date expires msg hmi hmsg hsign hfetch hchain hkey hsv hurl hint hpolicy out hd hc1 hw
  exact ⟨hchain, e', hr, hv⟩

/-! non-vacuity for Theorem 2. A complete instance would need `Sxg.write`, `signedMessage` and the structured-header
    formatter evaluated on a concrete exchange; all of them go through `Cbor.encodeMap` (`List.mergeSort`, well-founded
    recursion), which `decide` / the kernel do not evaluate, so no closed instance is given (the signing-side hypotheses are
    C02.honest_verifies's, unchanged). What this file ADDS are the input-side hypotheses `Dom env.url e0` and
    `CanonKeys e0.respHeaders`; they are satisfiable — gen-signedexchange's default exchange (only `Content-Type`): -/
example : ∃ (url : UrlFacts) (e0 : Exchange), Dom url e0 ∧ CanonKeys e0.respHeaders ∧ e0.version = .b3 := by
  refine ⟨fun _ => some (https, [], []),
    { version := .b3, uri := [], method := mGET, reqHeaders := [], status := 200,
      respHeaders := [(hContentType, [[116]])], sigHeader := [], payload := [1] }, ?_, ?_, rfl⟩
  · exact { fallback := by decide
            status := by decide
            asciiReq := fun _ h => by cases h
            asciiResp := fun kv h => by rw [List.mem_singleton.mp h]; decide +kernel
            noUrlKey := fun h => by cases h }
  · exact { canon := fun kv h => by rw [List.mem_singleton.mp h]; decide +kernel
            distinct := by simp }

end SxgPipeline

/-! ## 3. gen-bundle -dir → sign-bundle → dump-bundle -/
section SignPipeline
open WebPkg.BSig WebPkg.Bundle WebPkg.CertChain

/-- 3a. **sign-bundle signatures-section → dump-bundle** (`C06.honest_verifies_after_roundtrip` in C20's vocabulary):
    `b` is what sign-bundle read (no signatures section yet), `b'` what its `addSignature` loop produced for the signers,
    `out` what `writeBundleToFile` wrote; dump-bundle's `bundle.Read` accepts `out`, its `NewVerifier` trusts one subset per
    signer, and every exchange of `b` has a counterpart in the bundle read back (and vice versa) that `VerifyExchange`
    reports verified with the ORIGINAL body under the covering signer's leaf certificate, or unsigned if no signer covers it. -/
theorem sign_bundle_output_verifies (env : VEnv) (hlen : ∀ x, (env.H x).length = 32) (rs : Nat) (hrs : 1 ≤ rs)
    (hrs2 : rs ≤ 16384) (b b' : Bundle) (signers : List Signer) (t : GoTime.T)
    (hfirst : b.signatures = none) (hall : signAll env.H rs b signers = some b')
    (hs : ∀ s ∈ signers, bm_SignerOk env t b s)
    (hsig : ∀ s ∈ signers, env.sigVerify (bm_leaf s).cert (bm_signerMsg env.H rs b s) s.sig = true)
    (hn : b.exchanges.length < 2 ^ 64)
    (url : BUrlFacts) (parseOk : Bytes → Bool) (out : Bytes)
    (hd : RDomG url parseOk b') (hw : write b' = .ok (.ok out)) (hout : out.length < 2 ^ 63) :
    ∃ b'', read url parseOk out = .ok b'' ∧ b''.version = b.version ∧ b''.signatures = b'.signatures ∧
      newVerifier env (sigsOf b'') t b''.version = some (bm_trusted env.H rs b signers) ∧
      (∀ e ∈ b.exchanges, ∃ e'' ∈ b''.exchanges, e''.url = e.url ∧ brs_Verdict env rs b signers b''.version e e'') ∧
      (∀ e'' ∈ b''.exchanges, ∃ e ∈ b.exchanges, e''.url = e.url ∧ brs_Verdict env rs b signers b''.version e e'') :=
  C06.honest_verifies_after_roundtrip env hlen rs hrs hrs2 b b' signers t hfirst hall hs hsig hn url parseOk out hd hw hout

/-- the verdict dump-bundle reaches for the exchange `e₃` it read at URL `u`, whose content at the source was `body` -/
def SignedAs (env : VEnv) (rs : Nat) (b₁ : Bundle) (signers : List Signer) (u body : Bytes) (e₃ : Exch) : Prop :=
  e₃.url = u ∧
  (∀ s ∈ signers, s.canSign u = true →
    verifyExchange env b₁.version (bm_trusted env.H rs b₁ signers) e₃ = .verified body (bm_leaf s).cert) ∧
  ((∀ s ∈ signers, s.canSign u = false) →
    verifyExchange env b₁.version (bm_trusted env.H rs b₁ signers) e₃ = .unsigned)

/-- 3b. **the whole pipeline gen-bundle -dir → sign-bundle signatures-section → dump-bundle.**
    `out₁` is gen-bundle's output for the tree, `b₁` what sign-bundle's `bundle.Read` returned for it (by Theorem 1 it exists;
    it has no signatures section, which discharges `hfirst` of C06), `b₂` the bundle after the `addSignature` loop for any
    sequence of signers, `out₂` what sign-bundle wrote. Then dump-bundle reads `out₂`, trusts one vouched subset per signer,
    and in what it read **every regular file has exactly one exchange at its URL, verified — with the file's bytes as the
    verified payload — under the leaf certificate of the signer covering that URL (or reported unsigned if nobody covers it)**;
    for index.html this holds at the directory's slash URL, and the redirect at its own URL verifies with the redirect body.
    Hypotheses beyond Theorem 1's and C06's: none. `hn` (fewer than 2^64 exchanges — a Go slice length) and `hd₂`
    (`RDomG` of the SIGNED bundle: the authority certificates parse, …) are C06's and are kept as stated there. -/
theorem dir_bundle_signed_verifies
    (url : BUrlFacts) (parseOk : Bytes → Bool) (ver : BVer) (primary manifest : Option Bytes)
    (hdrs : DirWalk.Exch → Http.Headers) (rb : Bytes) (base : Bytes) (tree : DirWalk.Node) (out₁ : Bytes)
    (hb : base.getLast? = some 47) (hwf : DirWalk.WF tree)
    (hd : GenDom url ver primary manifest hdrs (DirWalk.walk base [46] tree))
    (hw : write (bundleOfWalk ver primary manifest hdrs rb (DirWalk.walk base [46] tree)) = .ok (.ok out₁))
    (hlen₁ : out₁.length < 2 ^ 63)
    -- sign-bundle
    (b₁ b₂ : Bundle) (hr₁ : read url parseOk out₁ = .ok b₁)
    (env : VEnv) (hlen : ∀ x, (env.H x).length = 32) (rs : Nat) (hrs : 1 ≤ rs) (hrs2 : rs ≤ 16384)
    (signers : List Signer) (now : GoTime.T)
    (hall : signAll env.H rs b₁ signers = some b₂)
    (hs : ∀ s ∈ signers, bm_SignerOk env now b₁ s)
    (hsig : ∀ s ∈ signers, env.sigVerify (bm_leaf s).cert (bm_signerMsg env.H rs b₁ s) s.sig = true)
    (hn : b₁.exchanges.length < 2 ^ 64)
    (out₂ : Bytes) (hd₂ : RDomG url parseOk b₂) (hw₂ : write b₂ = .ok (.ok out₂)) (hlen₂ : out₂.length < 2 ^ 63) :
    b₁.version = ver ∧
    ∃ b₃, read url parseOk out₂ = .ok b₃ ∧ b₃.version = ver ∧ b₃.signatures = b₂.signatures ∧
      newVerifier env (sigsOf b₃) now ver = some (bm_trusted env.H rs b₁ signers) ∧
      b₃.exchanges.length = (DirWalk.walk base [46] tree).length ∧
      (∀ p c, (p, c) ∈ DirWalk.files tree → DirWalk.basename p ≠ DirWalk.idx →
        ∃ e₃, b₃.exchanges.filter (fun e => e.url = pathToURL base p) = [e₃] ∧
          SignedAs env rs b₁ signers (pathToURL base p) c e₃) ∧
      (∀ p c, (p, c) ∈ DirWalk.files tree → DirWalk.basename p = DirWalk.idx →
        (∃ r₃, b₃.exchanges.filter (fun e => e.url = pathToURL base p) = [r₃] ∧
          SignedAs env rs b₁ signers (pathToURL base p) rb r₃) ∧
        (∃ d₃, b₃.exchanges.filter (fun e => e.url = DirWalk.dirURL base (DirWalk.dirname p)) = [d₃] ∧
          SignedAs env rs b₁ signers (DirWalk.dirURL base (DirWalk.dirname p)) c d₃)) := by
  obtain ⟨b', hr', hv, _, _, hsg, hl, _, hfile, hidx, _⟩ :=
    gen_bundle_dir_accepted url parseOk ver primary manifest hdrs rb base tree out₁ hb hwf hd hw hlen₁
  rw [hr₁] at hr'
  injection hr' with hr'
  subst hr'
  obtain ⟨b₃, hr₃, hv₃, hs₃, hnv, hfw, _⟩ :=
    C06.honest_verifies_after_roundtrip env hlen rs hrs hrs2 b₁ b₂ signers now hsg hall hs hsig hn url parseOk out₂ hd₂ hw₂ hlen₂
  -- the exchanges of b₃ have pairwise distinct URLs, and there are as many as in b₁
  obtain ⟨b₃', hr₃', _, _, _, _, σ, hσ, hl₃, hu₃, _⟩ := C03.read_write url parseOk b₂ out₂ hd₂ hw₂ hlen₂
  rw [hr₃] at hr₃'
  injection hr₃' with hr₃'
  subst hr₃'
  have hnd₃ : (b₃.exchanges.map (·.url)).Nodup := by
    rw [hu₃]; exact (hσ.map _).nodup_iff.mpr hd₂.urlsDistinct
  obtain ⟨_, _, hex₂, _⟩ := C06.honest_verifies_all env hlen rs hrs hrs2 b₁ b₂ signers now hsg hall hs hsig hn
  have hcount : b₃.exchanges.length = (DirWalk.walk base [46] tree).length := by
    rw [hl₃, hσ.length_eq, hex₂, List.length_map, hl]
  -- one exchange of b₁ at URL `u` with body `body` ⟹ exactly one exchange of b₃ there, with the verdict
  have key : ∀ (u body : Bytes) (e₁ : Exch), b₁.exchanges.filter (fun e => e.url = u) = [e₁] → e₁.url = u →
      e₁.resp.body = body → ∃ e₃, b₃.exchanges.filter (fun e => e.url = u) = [e₃] ∧ SignedAs env rs b₁ signers u body e₃ := by
    intro u body e₁ hf hu hbody
    have hmem : e₁ ∈ b₁.exchanges := by
      have : e₁ ∈ b₁.exchanges.filter (fun e => e.url = u) := by rw [hf]; exact List.mem_singleton.mpr rfl
      exact (List.mem_filter.mp this).1
    obtain ⟨e₃, he₃, hu₃', hvd⟩ := hfw e₁ hmem
    refine ⟨e₃, ?_, ?_⟩
    · rw [← hu, ← hu₃']; exact cc_filter_unique _ hnd₃ e₃ he₃
    · unfold brs_Verdict at hvd
      rw [hv₃, hu, hbody] at hvd
      exact ⟨hu₃'.trans hu, hvd.1, hvd.2⟩
  refine ⟨hv, b₃, hr₃, hv₃.trans hv, hs₃, ?_, hcount, ?_, ?_⟩
  · rw [← hv, ← hv₃]; exact hnv
  · intro p c hpc hne
    obtain ⟨e₁, hf, hu, _, hbody, _⟩ := hfile p c hpc hne
    exact key _ _ e₁ hf hu hbody
  · intro p c hpc hi
    obtain ⟨⟨r, hf, hu, _, hbody, _⟩, ⟨d, hf', hu', _, hbody', _⟩⟩ := hidx p c hpc hi
    exact ⟨key _ _ r hf hu hbody, key _ _ d hf' hu' hbody'⟩

/-- 3c. **gen-bundle -dir → sign-bundle integrity-block**: the output is (deterministic-CBOR integrity block) ‖ (the
    untouched gen-bundle output), the block's one signature verifies under the recorded public key over the data-to-be-signed
    built from SHA-512 of the bundle, and the bundle behind the block is still the one of Theorem 1 (so everything
    `gen_bundle_dir_accepted` says holds for `out₂.drop blockBytes.length`). -/
theorem dir_bundle_integrity_block
    (url : BUrlFacts) (parseOk : Bytes → Bool) (ver : BVer) (primary manifest : Option Bytes)
    (hdrs : DirWalk.Exch → Http.Headers) (rb : Bytes) (base : Bytes) (tree : DirWalk.Node) (out₁ : Bytes)
    (hb : base.getLast? = some 47) (hwf : DirWalk.WF tree)
    (hd : GenDom url ver primary manifest hdrs (DirWalk.walk base [46] tree))
    (hw : write (bundleOfWalk ver primary manifest hdrs rb (DirWalk.walk base [46] tree)) = .ok (.ok out₁))
    (hlen₁ : out₁.length < 2 ^ 63)
    (H512 : Bytes → Bytes) (sign : Bytes → Option Bytes) (edVerify : Bytes → Bytes → Bytes → Bool) (pk out₂ : Bytes)
    (hsign : IB.signFile H512 sign edVerify pk out₁ = .ok (some out₂)) :
    ∃ blockBytes sig dts, out₂ = blockBytes ++ out₁ ∧ out₂.drop blockBytes.length = out₁ ∧
      Det.deterministic blockBytes = .ok () ∧
      IB.dataToBeSigned (H512 out₁) IB.emptyBlockBytes [(IB.kEd25519PublicKey, pk)] = .ok dts ∧
      sign dts = some sig ∧ edVerify pk dts sig = true ∧
      ∃ b', read url parseOk (out₂.drop blockBytes.length) = .ok b' ∧ b'.version = ver ∧ b'.signatures = none ∧
        b'.exchanges.length = (DirWalk.walk base [46] tree).length := by
  obtain ⟨bb, sig, h1, _, h3, dts, h4, h5, h6⟩ := C07.output_layout H512 sign edVerify pk out₁ out₂ hsign
  obtain ⟨b', hr', hv, _, _, hsg, hl, _⟩ :=
    gen_bundle_dir_accepted url parseOk ver primary manifest hdrs rb base tree out₁ hb hwf hd hw hlen₁
  have hdrop : out₂.drop bb.length = out₁ := by rw [h1]; exact List.drop_left
  exact ⟨bb, sig, dts, h1, hdrop, h3, h4, h5, h6, b', by rw [hdrop]; exact hr', hv, hsg, hl⟩

/-! non-vacuity for 3b. With at least one signer a closed instance would need `write` evaluated on a bundle with a signatures
    section and MI-encoded bodies (again `encodeMap` / `mergeSort`, plus SHA-256 as a parameter); the signing-side hypotheses
    alone are shown satisfiable with two signers in `BSig.bm_ex` (Proofs/BSigMulti.lean). Here: all hypotheses of
    `dir_bundle_signed_verifies` hold together on the Example-1 tree in the degenerate case of an empty signer list
    (sign-bundle re-writes the bundle unchanged; dump-bundle then reports both exchanges unsigned). -/
theorem cc_ex_normal : Normal ex_bundle := by
  rw [cc_ex_bundle]
  exact { order := by
            refine List.Pairwise.cons ?_ (List.pairwise_singleton _ _)
            intro c hc
            rw [List.mem_singleton.mp hc]
            decide +kernel
          headers := by
            intro e he
            simp only [List.mem_cons, List.not_mem_nil, or_false] at he
            rcases he with rfl | rfl <;>
              exact ⟨fun _ h => (by cases h), fun _ h => (by cases h), List.Pairwise.nil⟩ }

example : ∃ (out₁ out₂ : Bytes) (b₁ b₃ : Bundle) (env : VEnv),
    write ex_bundle = .ok (.ok out₁) ∧ read ex_url (fun _ => true) out₁ = .ok b₁ ∧
    signAll env.H 16 b₁ [] = some b₁ ∧ write b₁ = .ok (.ok out₂) ∧
    read ex_url (fun _ => true) out₂ = .ok b₃ ∧
    (∃ d₃, b₃.exchanges.filter (fun e => e.url = ex_base) = [d₃] ∧
      verifyExchange env b₁.version (bm_trusted env.H 16 b₁ []) d₃ = .unsigned) := by
  obtain ⟨out, hw, hl⟩ := cc_ex_write
  have hdom : RDomG ex_url (fun _ => true) ex_bundle :=
    cc_rdomG ex_url (fun _ => true) .b2 (some ex_base) none (fun _ => []) [] _ cc_ex_dom
      (DirWalk.walk_urls_distinct ex_base ex_tree (by decide) (by decide))
  have hr : read ex_url (fun _ => true) out = .ok ex_bundle :=
    C03.read_write_normal ex_url (fun _ => true) ex_bundle out cc_ex_normal hdom hw hl
  let env : VEnv := ⟨fun _ => List.replicate 32 0, fun _ => true, fun _ => true, fun _ _ _ => true⟩
  obtain ⟨_, b₃, hr₃, _, _, _, _, _, hidx⟩ :=
    dir_bundle_signed_verifies ex_url (fun _ => true) .b2 (some ex_base) none (fun _ => []) [] ex_base ex_tree out
      (by decide) (by decide) cc_ex_dom hw hl ex_bundle ex_bundle hr env (fun _ => List.length_replicate) 16
      (by decide) (by decide) [] ⟨0, 0⟩ rfl (fun _ h => by cases h) (fun _ h => by cases h)
      (by rw [cc_ex_bundle]; decide) out hdom hw hl
  obtain ⟨_, ⟨d₃, hf, _, _, hun⟩⟩ := hidx DirWalk.idx [104, 105] (by decide) (by decide)
  exact ⟨out, out, ex_bundle, b₃, env, hw, hr, rfl, hw, hr₃, d₃, hf, hun (fun _ h => by cases h)⟩

end SignPipeline

#print axioms gen_bundle_read_back
#print axioms gen_bundle_dir_accepted
#print axioms gen_signedexchange_verifies
#print axioms gen_signedexchange_verifies_window
#print axioms gen_certurl_signedexchange_verifies
#print axioms sign_bundle_output_verifies
#print axioms dir_bundle_signed_verifies
#print axioms dir_bundle_integrity_block
#print axioms cc_ex_write
#print axioms cc_ex_normal
#print axioms cc_signed_headers

end WebPkg.C20Compose
