import WebPkg.Model.HarWalk
import WebPkg.Properties.C03
/-
  C20 — `gen-bundle -har`: theorems about the model of cmd/gen-bundle/fromhar.go (Model/HarWalk.lean) and its
  composition with the bundle writer and reader (`har_bundle_read_back`).

    har_error_iff            `fromHar` fails ⇔ some entry's URL does not parse or its body does not decode
    har_sublist              the exchanges are, in HAR order, those of a sub-list of eligible (GET, 100 ≤ status ≤ 999) entries
    har_status               every exchange has a three-digit status
    har_headers_clean        no response header is a pseudo header or an uncached header, in any letter case
    har_duplicates_have_variants   two exchanges with the same URL both carry a Variants header
    har_first_kept           the first entry for a URL is kept whenever it is eligible (nothing is dropped without cause)
    har_bundle_read_back     gen-bundle -har → bundle.Read: one exchange per kept entry with its URL, status, body, headers

  Helper lemmas are prefixed `hw_`.
-/
namespace WebPkg.C20Har
open WebPkg WebPkg.Http WebPkg.HarWalk

/-- the exchange `fromHar` builds for an entry (when its URL parses and its body decodes) -/
def toExch (e : Entry) : Option Bundle.Exch :=
  match e.key, e.body with
  | some k, some b => some { url := k, resp := { status := e.status, headers := nvpToHeader Sxg.isUncachedHeader e.resH [], body := b } }
  | _, _ => none

/-! ## the `hasVariants` map -/

theorem hw_mapGet_mapSet (m : List (Bytes × Bool)) (k : Bytes) (v : Bool) (k' : Bytes) :
    mapGet (mapSet m k v) k' = if k = k' then some v else mapGet m k' := by
  induction m with
  | nil => simp [mapSet, mapGet]
  | cons p m ih =>
    unfold mapSet
    by_cases hp : p.1 = k
    · simp only [hp, if_true, mapGet]
      by_cases hk : k = k'
      · simp [hk]
      · simp [hk]
    · simp only [hp, if_false, mapGet, ih]
      by_cases hk : k = k'
      · subst hk; simp [hp]
      · simp only [hk, if_false]

/-! ## one step -/

/-- what one iteration can do: leave the state alone, or append the entry's exchange -/
theorem hw_step_cases (st st' : List (Bytes × Bool) × List Bundle.Exch) (e : Entry) (h : step st e = some st') :
    st' = st ∨
    (eligible e = true ∧ ∃ x, toExch e = some x ∧ st'.2 = st.2 ++ [x] ∧
      st'.1 = mapSet st.1 x.url (hasVariantsHdr x.resp.headers) ∧
      (mapGet st.1 x.url = none ∨ (mapGet st.1 x.url = some true ∧ hasVariantsHdr x.resp.headers = true))) := by
  unfold step at h
  cases hk : e.key with
  | none => simp [hk] at h
  | some key =>
    cases hb : e.body with
    | none => simp [hk, hb] at h
    | some body =>
      simp only [hk, hb] at h
      by_cases hm : e.method = methodGet
      · simp only [hm, ne_eq, not_true_eq_false, if_false] at h
        by_cases hs : e.status < 100 ∨ e.status > 999
        · simp only [hs, if_true, Option.some.injEq] at h; exact Or.inl h.symm
        · simp only [hs, if_false] at h
          have hel : eligible e = true := by
            unfold eligible
            have : 100 ≤ e.status ∧ e.status ≤ 999 := by omega
            simp [hm, this.1, this.2]
          have hx : toExch e = some { url := key, resp := { status := e.status, headers := nvpToHeader Sxg.isUncachedHeader e.resH [], body := body } } := by
            simp [toExch, hk, hb]
          cases hg : mapGet st.1 key with
          | none =>
            simp only [hg, Option.some.injEq] at h
            subst h
            exact Or.inr ⟨hel, _, hx, rfl, rfl, Or.inl hg⟩
          | some others =>
            simp only [hg] at h
            by_cases hc : (!hasVariantsHdr (nvpToHeader Sxg.isUncachedHeader e.resH []) || !others) = true
            · simp only [hc, if_true, Option.some.injEq] at h; exact Or.inl h.symm
            · simp only [hc, Bool.false_eq_true, if_false, Option.some.injEq] at h
              subst h
              have hc' : hasVariantsHdr (nvpToHeader Sxg.isUncachedHeader e.resH []) = true ∧ others = true := by
                cases h1 : hasVariantsHdr (nvpToHeader Sxg.isUncachedHeader e.resH []) <;> cases h2 : others <;> simp [h1, h2] at hc ⊢
              exact Or.inr ⟨hel, _, hx, rfl, rfl, Or.inr ⟨by rw [hg, hc'.2], hc'.1⟩⟩
      · simp only [hm, ne_eq, not_false_eq_true, if_true, Option.some.injEq] at h
        exact Or.inl h.symm

theorem hw_step_none (st : List (Bytes × Bool) × List Bundle.Exch) (e : Entry) :
    step st e = none ↔ (e.key = none ∨ e.body = none) := by
  unfold step
  cases hk : e.key with
  | none => simp
  | some key =>
    cases hb : e.body with
    | none => simp
    | some body =>
      simp only [reduceCtorEq, or_self, iff_false]
      by_cases hm : e.method = methodGet
      · simp only [hm, ne_eq, not_true_eq_false, if_false]
        by_cases hs : e.status < 100 ∨ e.status > 999
        · simp [hs]
        · simp only [hs, if_false]
          cases mapGet st.1 key with
          | none => simp
          | some o => simp only; split <;> simp
      · simp [hm]

/-- an invariant of the loop carries over to the result -/
theorem hw_run_inv (P : List (Bytes × Bool) × List Bundle.Exch → Prop)
    (hstep : ∀ st e st', P st → step st e = some st' → P st') :
    ∀ (es : List Entry) (st st' : _), P st → run es st = some st' → P st' := by
  intro es
  induction es with
  | nil => intro st st' hp h; simp [run] at h; exact h ▸ hp
  | cons e rest ih =>
    intro st st' hp h
    unfold run at h
    cases hs : step st e with
    | none => simp [hs] at h
    | some st1 => simp only [hs] at h; exact ih st1 st' (hstep st e st1 hp hs) h

/-! ## errors -/

theorem hw_run_none : ∀ (es : List Entry) (st : _), run es st = none ↔ ∃ e ∈ es, e.key = none ∨ e.body = none := by
  intro es
  induction es with
  | nil => intro st; simp [run]
  | cons e rest ih =>
    intro st
    unfold run
    cases hs : step st e with
    | none =>
      have := (hw_step_none st e).mp hs
      simp only [true_iff]
      exact ⟨e, List.mem_cons_self, this⟩
    | some st1 =>
      have hne : ¬ (e.key = none ∨ e.body = none) := fun h => by
        have := (hw_step_none st e).mpr h; rw [hs] at this; cases this
      simp only [ih st1, List.mem_cons]
      constructor
      · rintro ⟨x, hx, h⟩; exact ⟨x, Or.inr hx, h⟩
      · rintro ⟨x, hx | hx, h⟩
        · subst hx; exact absurd h hne
        · exact ⟨x, hx, h⟩

/-- **errors.** `fromHar` returns an error exactly when some entry's request URL does not parse or its response body
    does not decode — whatever that entry's method or status (the Go code parses and decodes before it filters). -/
theorem har_error_iff (es : List Entry) : fromHar es = none ↔ ∃ e ∈ es, e.key = none ∨ e.body = none := by
  unfold fromHar
  rw [Option.map_eq_none_iff]
  exact hw_run_none es _

/-! ## what is kept -/

theorem hw_run_sublist : ∀ (es : List Entry) (st st' : _), run es st = some st' →
    ∃ kept : List Entry, kept.Sublist es ∧ (∀ e ∈ kept, eligible e = true) ∧
      st'.2.map some = st.2.map some ++ kept.map toExch := by
  intro es
  induction es with
  | nil => intro st st' h; simp [run] at h; subst h; exact ⟨[], List.Sublist.refl _, by simp, by simp⟩
  | cons e rest ih =>
    intro st st' h
    unfold run at h
    cases hs : step st e with
    | none => simp [hs] at h
    | some st1 =>
      simp only [hs] at h
      obtain ⟨kept, hsub, hel, heq⟩ := ih st1 st' h
      rcases hw_step_cases st st1 e hs with rfl | ⟨he, x, hx, h2, _, _⟩
      · exact ⟨kept, hsub.cons _, hel, heq⟩
      · refine ⟨e :: kept, hsub.cons_cons _, ?_, ?_⟩
        · intro y hy; rcases List.mem_cons.mp hy with rfl | hy; exact he; exact hel y hy
        · rw [heq, h2]; simp [hx]

/-- **filter soundness.** The exchanges `fromHar` returns are, in HAR order, exactly the exchanges of a sub-list of the
    entries, each of which is a GET with a status in [100, 999]: nothing is invented, reordered or altered. -/
theorem har_sublist (es : List Entry) (out : List Bundle.Exch) (h : fromHar es = some out) :
    ∃ kept : List Entry, kept.Sublist es ∧ (∀ e ∈ kept, eligible e = true) ∧ kept.map toExch = out.map some := by
  unfold fromHar at h
  obtain ⟨st', hr, rfl⟩ := Option.map_eq_some_iff.mp h
  obtain ⟨kept, h1, h2, h3⟩ := hw_run_sublist es _ st' hr
  exact ⟨kept, h1, h2, by simpa using h3.symm⟩

theorem hw_toExch_status (e : Entry) (x : Bundle.Exch) (h : toExch e = some x) : x.resp.status = e.status := by
  unfold toExch at h
  cases hk : e.key <;> cases hb : e.body <;> simp [hk, hb] at h
  subst h; rfl

theorem hw_toExch_url (e : Entry) (x : Bundle.Exch) (h : toExch e = some x) : e.key = some x.url := by
  unfold toExch at h
  cases hk : e.key <;> cases hb : e.body <;> simp [hk, hb] at h
  subst h; rfl

theorem hw_toExch_headers (e : Entry) (x : Bundle.Exch) (h : toExch e = some x) :
    x.resp.headers = nvpToHeader Sxg.isUncachedHeader e.resH [] := by
  unfold toExch at h
  cases hk : e.key <;> cases hb : e.body <;> simp [hk, hb] at h
  subst h; rfl

theorem hw_toExch_body (e : Entry) (x : Bundle.Exch) (h : toExch e = some x) : e.body = some x.resp.body := by
  unfold toExch at h
  cases hk : e.key <;> cases hb : e.body <;> simp [hk, hb] at h
  subst h; rfl

/-- every returned exchange is `toExch` of an eligible entry of the HAR -/
theorem hw_mem_origin (es : List Entry) (out : List Bundle.Exch) (h : fromHar es = some out) (x : Bundle.Exch) (hx : x ∈ out) :
    ∃ e ∈ es, eligible e = true ∧ toExch e = some x := by
  obtain ⟨kept, hsub, hel, heq⟩ := har_sublist es out h
  have : some x ∈ kept.map toExch := heq ▸ List.mem_map.mpr ⟨x, hx, rfl⟩
  obtain ⟨e, he, hex⟩ := List.mem_map.mp this
  exact ⟨e, hsub.subset he, hel e he, hex⟩

/-- **status.** every exchange has a three-digit status (what `bundle.Read` demands of `:status`) -/
theorem har_status (es : List Entry) (out : List Bundle.Exch) (h : fromHar es = some out) :
    ∀ x ∈ out, 100 ≤ x.resp.status ∧ x.resp.status ≤ 999 := by
  intro x hx
  obtain ⟨e, _, hel, hex⟩ := hw_mem_origin es out h x hx
  rw [hw_toExch_status e x hex]
  unfold eligible at hel
  simp only [Bool.and_eq_true, decide_eq_true_eq] at hel
  exact ⟨hel.1.2, hel.2⟩

/-! ## header hygiene -/

theorem hw_byte {P : UInt8 → Prop} (h : ∀ n : Fin 256, P (UInt8.ofNat n.val)) (c : UInt8) : P c := by
  have := h ⟨c.toNat, c.toNat_lt⟩
  simpa using this

theorem hw_lower_upper_fin : ∀ n : Fin 256, toLowerByte (toUpperByte (UInt8.ofNat n.val)) = toLowerByte (UInt8.ofNat n.val) := by decide +kernel
theorem hw_lower_lower_fin : ∀ n : Fin 256, toLowerByte (toLowerByte (UInt8.ofNat n.val)) = toLowerByte (UInt8.ofNat n.val) := by decide +kernel
theorem hw_upper_ne58_fin : ∀ n : Fin 256, toUpperByte (UInt8.ofNat n.val) = 58 → UInt8.ofNat n.val = 58 := by decide +kernel
theorem hw_upper_ascii_fin : ∀ n : Fin 256, UInt8.ofNat n.val < 128 → toUpperByte (UInt8.ofNat n.val) < 128 := by decide +kernel
theorem hw_lower_ascii_fin : ∀ n : Fin 256, UInt8.ofNat n.val < 128 → toLowerByte (UInt8.ofNat n.val) < 128 := by decide +kernel

theorem hw_lower_upper (c : UInt8) : toLowerByte (toUpperByte c) = toLowerByte c :=
  hw_byte (P := fun c => toLowerByte (toUpperByte c) = toLowerByte c) hw_lower_upper_fin c
theorem hw_lower_lower (c : UInt8) : toLowerByte (toLowerByte c) = toLowerByte c :=
  hw_byte (P := fun c => toLowerByte (toLowerByte c) = toLowerByte c) hw_lower_lower_fin c
theorem hw_upper_ne58 (c : UInt8) : toUpperByte c = 58 → c = 58 :=
  hw_byte (P := fun c => toUpperByte c = 58 → c = 58) hw_upper_ne58_fin c
theorem hw_upper_ascii (c : UInt8) : c < 128 → toUpperByte c < 128 :=
  hw_byte (P := fun c => c < 128 → toUpperByte c < 128) hw_upper_ascii_fin c
theorem hw_lower_ascii (c : UInt8) : c < 128 → toLowerByte c < 128 :=
  hw_byte (P := fun c => c < 128 → toLowerByte c < 128) hw_lower_ascii_fin c

theorem hw_lower_titleCase : ∀ (s : Bytes) (u : Bool), lowerAscii (titleCase u s) = lowerAscii s := by
  intro s
  induction s with
  | nil => intro u; rfl
  | cons c rest ih =>
    intro u
    unfold titleCase lowerAscii
    simp only [List.map_cons]
    have := ih (c == 45)
    unfold lowerAscii at this
    rw [this]
    cases u
    · simp only [Bool.false_eq_true, if_false]; rw [hw_lower_lower c]
    · simp only [if_true]; rw [hw_lower_upper c]

/-- `CanonicalMIMEHeaderKey` changes letter case only -/
theorem hw_lower_canonicalKey (s : Bytes) : lowerAscii (canonicalKey s) = lowerAscii s := by
  unfold canonicalKey
  split
  · exact hw_lower_titleCase s true
  · rfl

theorem hw_head_canonicalKey (s : Bytes) (h : s.head? ≠ some 58) : (canonicalKey s).head? ≠ some 58 := by
  unfold canonicalKey
  split
  · cases s with
    | nil => simp [titleCase]
    | cons c rest =>
      simp only [titleCase, if_true, List.head?_cons, ne_eq, Option.some.injEq]
      intro hc
      simp only [List.head?_cons, ne_eq, Option.some.injEq] at h
      exact h (hw_upper_ne58 c hc)
  · exact h

theorem hw_ascii_titleCase : ∀ (s : Bytes) (u : Bool), isAscii s = true → isAscii (titleCase u s) = true := by
  intro s
  induction s with
  | nil => intro u _; rfl
  | cons c rest ih =>
    intro u h
    unfold isAscii at h ⊢
    simp only [List.all_cons, Bool.and_eq_true, decide_eq_true_eq] at h
    unfold titleCase
    simp only [List.all_cons, Bool.and_eq_true, decide_eq_true_eq]
    refine ⟨?_, ih (c == 45) h.2⟩
    cases u
    · simp only [Bool.false_eq_true, if_false]; exact hw_lower_ascii c h.1
    · simp only [if_true]; exact hw_upper_ascii c h.1

theorem hw_ascii_canonicalKey (s : Bytes) (h : isAscii s = true) : isAscii (canonicalKey s) = true := by
  unfold canonicalKey
  split
  · exact hw_ascii_titleCase s true h
  · exact h

/-- where the entries of `Header.Add`'s result come from -/
theorem hw_add_mem (h : Headers) (k v : Bytes) (kv : Bytes × List Bytes) (hm : kv ∈ Http.add h k v) :
    (kv.1 = canonicalKey k ∨ ∃ kv' ∈ h, kv'.1 = kv.1) ∧ (∀ x ∈ kv.2, x = v ∨ ∃ kv' ∈ h, x ∈ kv'.2) := by
  unfold Http.add at hm
  simp only at hm
  split at hm
  · obtain ⟨p, hp, hpe⟩ := List.mem_map.mp hm
    by_cases hpk : p.1 = canonicalKey k
    · simp only [hpk, BEq.rfl, if_true] at hpe
      subst hpe
      refine ⟨Or.inl rfl, ?_⟩
      intro x hx
      rcases List.mem_append.mp hx with hx | hx
      · exact Or.inr ⟨p, hp, hx⟩
      · exact Or.inl (by simpa using hx)
    · have : (p.1 == canonicalKey k) = false := by simpa using hpk
      simp only [this, Bool.false_eq_true, if_false] at hpe
      subst hpe
      exact ⟨Or.inr ⟨p, hp, rfl⟩, fun x hx => Or.inr ⟨p, hp, hx⟩⟩
  · rcases List.mem_append.mp hm with hm | hm
    · exact ⟨Or.inr ⟨kv, hm, rfl⟩, fun x hx => Or.inr ⟨kv, hm, hx⟩⟩
    · have : kv = (canonicalKey k, [v]) := by simpa using hm
      subst this
      exact ⟨Or.inl rfl, fun x hx => Or.inl (by simpa using hx)⟩

/-- every field of `nvpToHeader`'s result either was in the initial map or is the canonical spelling of a listed name that is
    neither a pseudo header nor banned; every value was in the initial map or is a listed value -/
theorem hw_nvp_mem (banned : Bytes → Bool) : ∀ (nvps : List (Bytes × Bytes)) (h : Headers) (kv : Bytes × List Bytes),
    kv ∈ nvpToHeader banned nvps h →
    ((∃ kv' ∈ h, kv'.1 = kv.1) ∨ ∃ nv ∈ nvps, kv.1 = canonicalKey nv.1 ∧ nv.1.head? ≠ some 58 ∧ banned nv.1 = false) ∧
    (∀ x ∈ kv.2, (∃ kv' ∈ h, x ∈ kv'.2) ∨ ∃ nv ∈ nvps, x = nv.2) := by
  intro nvps
  induction nvps with
  | nil => intro h kv hm; exact ⟨Or.inl ⟨kv, hm, rfl⟩, fun x hx => Or.inl ⟨kv, hm, hx⟩⟩
  | cons nv rest ih =>
    intro h kv hm
    obtain ⟨n, v⟩ := nv
    unfold nvpToHeader at hm
    by_cases h58 : n.head? = some 58
    · simp only [h58, if_true] at hm
      obtain ⟨a, b⟩ := ih h kv hm
      refine ⟨a.imp id (fun ⟨nv, hnv, r⟩ => ⟨nv, List.mem_cons_of_mem _ hnv, r⟩), fun x hx => (b x hx).imp id (fun ⟨nv, hnv, r⟩ => ⟨nv, List.mem_cons_of_mem _ hnv, r⟩)⟩
    · simp only [h58, if_false] at hm
      by_cases hb : banned n = true
      · simp only [hb, if_true] at hm
        obtain ⟨a, b⟩ := ih h kv hm
        refine ⟨a.imp id (fun ⟨nv, hnv, r⟩ => ⟨nv, List.mem_cons_of_mem _ hnv, r⟩), fun x hx => (b x hx).imp id (fun ⟨nv, hnv, r⟩ => ⟨nv, List.mem_cons_of_mem _ hnv, r⟩)⟩
      · simp only [hb, Bool.false_eq_true, if_false] at hm
        have hbf : banned n = false := by simpa using hb
        obtain ⟨a, b⟩ := ih (Http.add h n v) kv hm
        constructor
        · rcases a with ⟨kv', hkv', hk⟩ | ⟨nv, hnv, r⟩
          · rcases (hw_add_mem h n v kv' hkv').1 with hc | ⟨kv'', h1, h2⟩
            · exact Or.inr ⟨(n, v), List.mem_cons_self, by rw [← hk, hc], h58, hbf⟩
            · exact Or.inl ⟨kv'', h1, h2.trans hk⟩
          · exact Or.inr ⟨nv, List.mem_cons_of_mem _ hnv, r⟩
        · intro x hx
          rcases b x hx with ⟨kv', hkv', hxk⟩ | ⟨nv, hnv, r⟩
          · rcases (hw_add_mem h n v kv' hkv').2 x hxk with hc | ⟨kv'', h1, h2⟩
            · exact Or.inr ⟨(n, v), List.mem_cons_self, hc⟩
            · exact Or.inl ⟨kv'', h1, h2⟩
          · exact Or.inr ⟨nv, List.mem_cons_of_mem _ hnv, r⟩

theorem hw_uncached_canonical (n : Bytes) : Sxg.isUncachedHeader (canonicalKey n) = Sxg.isUncachedHeader n := by
  unfold Sxg.isUncachedHeader
  rw [hw_lower_canonicalKey]

/-- **header hygiene.** No response header field of a returned exchange is an HTTP/2 pseudo header (name starting with `:`)
    or one of the uncached header fields, whatever letter case the HAR used; and every field is the canonical spelling of a
    name in the entry's HAR header list, every value one of that list's values. -/
theorem har_headers_clean (es : List Entry) (out : List Bundle.Exch) (h : fromHar es = some out) :
    ∀ x ∈ out, ∀ kv ∈ x.resp.headers, kv.1.head? ≠ some 58 ∧ Sxg.isUncachedHeader kv.1 = false := by
  intro x hx kv hkv
  obtain ⟨e, _, _, hex⟩ := hw_mem_origin es out h x hx
  rw [hw_toExch_headers e x hex] at hkv
  rcases (hw_nvp_mem _ e.resH [] kv hkv).1 with ⟨_, h0, _⟩ | ⟨nv, _, hk, h58, hb⟩
  · cases h0
  · rw [hk]
    exact ⟨hw_head_canonicalKey _ h58, by rw [hw_uncached_canonical]; exact hb⟩

/-! ## duplicates -/

/-- the loop invariant behind the duplicate-URL rule -/
def DupInv (st : List (Bytes × Bool) × List Bundle.Exch) : Prop :=
  (∀ x ∈ st.2, mapGet st.1 x.url ≠ none) ∧
  (∀ x ∈ st.2, mapGet st.1 x.url = some true → hasVariantsHdr x.resp.headers = true) ∧
  st.2.Pairwise (fun a b => a.url = b.url → hasVariantsHdr a.resp.headers = true ∧ hasVariantsHdr b.resp.headers = true)

theorem hw_dupInv_step (st : _) (e : Entry) (st' : _) (hi : DupInv st) (h : step st e = some st') : DupInv st' := by
  rcases hw_step_cases st st' e h with rfl | ⟨_, x, _, h2, h3, h4⟩
  · exact hi
  · obtain ⟨i1, i2, i3⟩ := hi
    refine ⟨?_, ?_, ?_⟩
    · intro y hy
      rw [h2] at hy; rw [h3, hw_mapGet_mapSet]
      rcases List.mem_append.mp hy with hy | hy
      · split; simp; exact i1 y hy
      · have : y = x := by simpa using hy
        subst this; simp
    · intro y hy hg
      rw [h2] at hy; rw [h3, hw_mapGet_mapSet] at hg
      rcases List.mem_append.mp hy with hy | hy
      · by_cases hxy : x.url = y.url
        · -- an earlier exchange with the same URL exists, so the map had the key: the entry was kept under `some true`
          rcases h4 with h4 | ⟨h4, _⟩
          · exact absurd (hxy ▸ h4) (i1 y hy)
          · exact i2 y hy (hxy ▸ h4)
        · simp only [hxy, if_false] at hg; exact i2 y hy hg
      · have : y = x := by simpa using hy
        subst this
        simpa using hg
    · rw [h2, List.pairwise_append]
      refine ⟨i3, by simp, ?_⟩
      intro a ha b hb hab
      have : b = x := by simpa using hb
      subst this
      rcases h4 with h4 | ⟨h4, h5⟩
      · exact absurd (hab ▸ h4) (i1 a ha)
      · exact ⟨i2 a ha (hab ▸ h4), h5⟩

/-- **duplicate URLs.** Two exchanges of the result that share a URL both carry a `Variants` header — the only situation in
    which the b1 writer can emit several representations for one URL. (Consequently, without Variants headers the URLs of the
    result are pairwise distinct: `har_urls_distinct`.) -/
theorem har_duplicates_have_variants (es : List Entry) (out : List Bundle.Exch) (h : fromHar es = some out) :
    out.Pairwise (fun a b => a.url = b.url → hasVariantsHdr a.resp.headers = true ∧ hasVariantsHdr b.resp.headers = true) := by
  unfold fromHar at h
  obtain ⟨st', hr, rfl⟩ := Option.map_eq_some_iff.mp h
  have : DupInv st' := hw_run_inv DupInv hw_dupInv_step es _ st' ⟨by simp, by simp, by simp⟩ hr
  exact this.2.2

theorem har_urls_distinct (es : List Entry) (out : List Bundle.Exch) (h : fromHar es = some out)
    (hnv : ∀ x ∈ out, hasVariantsHdr x.resp.headers = false) : (out.map (·.url)).Nodup := by
  have hp := har_duplicates_have_variants es out h
  rw [List.Nodup, List.pairwise_map]
  refine List.Pairwise.imp_of_mem ?_ hp
  intro a b ha _ hab heq
  have := (hab heq).1
  rw [hnv a ha] at this
  cases this

/-! ## nothing is dropped without cause -/

theorem hw_run_keeps_out : ∀ (es : List Entry) (st st' : _), run es st = some st' → ∀ x ∈ st.2, x ∈ st'.2 := by
  intro es st st' h x hx
  obtain ⟨kept, _, _, heq⟩ := hw_run_sublist es st st' h
  have : some x ∈ st'.2.map some := by rw [heq]; exact List.mem_append_left _ (List.mem_map.mpr ⟨x, hx, rfl⟩)
  obtain ⟨y, hy, hxy⟩ := List.mem_map.mp this
  injection hxy with hxy; exact hxy ▸ hy

/-- the map only knows keys of processed entries -/
theorem hw_run_map_keys : ∀ (es : List Entry) (st st' : _), run es st = some st' →
    ∀ k, mapGet st'.1 k ≠ none → mapGet st.1 k ≠ none ∨ ∃ e ∈ es, e.key = some k := by
  intro es
  induction es with
  | nil => intro st st' h k hk; simp [run] at h; subst h; exact Or.inl hk
  | cons e rest ih =>
    intro st st' h k hk
    unfold run at h
    cases hs : step st e with
    | none => simp [hs] at h
    | some st1 =>
      simp only [hs] at h
      rcases ih st1 st' h k hk with h1 | ⟨e', he', hk'⟩
      · rcases hw_step_cases st st1 e hs with rfl | ⟨_, x, hx, _, h3, _⟩
        · exact Or.inl h1
        · rw [h3, hw_mapGet_mapSet] at h1
          by_cases hxk : x.url = k
          · exact Or.inr ⟨e, List.mem_cons_self, by rw [hw_toExch_url e x hx, hxk]⟩
          · simp only [hxk, if_false] at h1; exact Or.inl h1
      · exact Or.inr ⟨e', List.mem_cons_of_mem _ he', hk'⟩

/-- **completeness.** An eligible entry whose URL no earlier entry of the HAR has is kept: its exchange is in the result.
    (Together with `har_sublist`: entries are dropped only for their method, their status, or an earlier entry with the same URL.) -/
theorem har_first_kept (pre post : List Entry) (e : Entry) (x : Bundle.Exch) (out : List Bundle.Exch)
    (h : fromHar (pre ++ e :: post) = some out) (hel : eligible e = true) (hx : toExch e = some x)
    (hfirst : ∀ p ∈ pre, p.key ≠ e.key) : x ∈ out := by
  unfold fromHar at h
  obtain ⟨st', hr, rfl⟩ := Option.map_eq_some_iff.mp h
  -- split the run at `e`
  have split : ∀ (l : List Entry) (st : _), run (l ++ e :: post) st = some st' →
      ∃ st1 st2, run l st = some st1 ∧ step st1 e = some st2 ∧ run post st2 = some st' := by
    intro l
    induction l with
    | nil =>
      intro st hrun
      simp only [List.nil_append] at hrun
      unfold run at hrun
      cases hs : step st e with
      | none => simp [hs] at hrun
      | some st2 => simp only [hs] at hrun; exact ⟨st, st2, rfl, hs, hrun⟩
    | cons a l ih =>
      intro st hrun
      simp only [List.cons_append] at hrun
      unfold run at hrun
      cases hs : step st a with
      | none => simp [hs] at hrun
      | some sta =>
        simp only [hs] at hrun
        obtain ⟨st1, st2, h1, h2, h3⟩ := ih sta hrun
        refine ⟨st1, st2, ?_, h2, h3⟩
        show run (a :: l) st = some st1
        unfold run; simp only [hs]; exact h1
  obtain ⟨st1, st2, h1, h2, h3⟩ := split pre _ hr
  have hkey := hw_toExch_url e x hx
  have hnone : mapGet st1.1 x.url = none := by
    cases hg : mapGet st1.1 x.url with
    | none => rfl
    | some v =>
      exfalso
      rcases hw_run_map_keys pre _ st1 h1 x.url (by rw [hg]; simp) with h0 | ⟨p, hp, hpk⟩
      · simp [mapGet] at h0
      · exact hfirst p hp (by rw [hpk, hkey])
  -- with the key absent, the step keeps the entry
  have : x ∈ st2.2 := by
    unfold step at h2
    unfold toExch at hx
    cases hk : e.key with
    | none => simp [hk] at hx
    | some key =>
      cases hb : e.body with
      | none => simp [hk, hb] at hx
      | some body =>
        simp only [hk, hb, Option.some.injEq] at hx h2
        unfold eligible at hel
        simp only [Bool.and_eq_true, decide_eq_true_eq, beq_iff_eq] at hel
        have hs : ¬ (e.status < 100 ∨ e.status > 999) := by omega
        have hku : key = x.url := by rw [← hx]
        simp only [hel.1.1, ne_eq, not_true_eq_false, if_false, hs, hku, hnone, Option.some.injEq] at h2
        rw [← h2]
        simp only [List.mem_append, List.mem_singleton]
        right
        rw [← hx, hku]
  exact hw_run_keeps_out post st2 st' h3 x this

/-! ## gen-bundle -har → bundle.Read -/

/-- gen-bundle `main` with `-har`: the bundle handed to `Validate` / `WriteTo` -/
def bundleOfHar (ver : Bundle.BVer) (primary manifest : Option Bytes) (out : List Bundle.Exch) : Bundle.Bundle :=
  { version := ver, primaryURL := primary, exchanges := out, manifestURL := manifest, signatures := none }

/-- hypotheses about the HAR *file* and the flags (what `bundle.Read` checks and gen-bundle does not): URLs print without
    fragment / credentials, header names and values are ASCII, `-primaryURL` / `-manifestURL` are acceptable. The status range
    and the absence of pseudo headers are **not** assumed: `fromHar` guarantees them (`har_status`, `har_headers_clean`). -/
structure HarDom (url : Bundle.BUrlFacts) (ver : Bundle.BVer) (primary manifest : Option Bytes) (es : List Entry) : Prop where
  urlsOk : ∀ e ∈ es, ∀ k, e.key = some k → ∃ isAbs, url k = some (false, false, isAbs, k)
  hdrAscii : ∀ e ∈ es, ∀ nv ∈ e.resH, isAscii nv.1 = true ∧ isAscii nv.2 = true
  primaryOk : ∀ u, primary = some u → ∃ frag user abs, url u = some (frag, user, abs, u) ∧
    (ver = .b2 → frag = false ∧ user = false ∧ abs = true)
  manifestOk : ∀ u, manifest = some u → url u = some (false, false, true, u)

/-- **gen-bundle -har → bundle.Read.** For a HAR none of whose kept responses carries a Variants header: if `WriteTo`
    succeeded with `bytes`, then `bundle.Read` (dump-bundle, sign-bundle) accepts them and returns the same version, primary and
    manifest URL, no signatures, and — up to the index order `σ` — exactly the exchanges `fromHar` produced, each with its URL,
    status, body and normalised headers; by `har_sublist` / `har_first_kept` these are the eligible first entries of the HAR. -/
theorem har_bundle_read_back (url : Bundle.BUrlFacts) (parseOk : Bytes → Bool) (ver : Bundle.BVer)
    (primary manifest : Option Bytes) (es : List Entry) (out : List Bundle.Exch) (bytes : Bytes)
    (hd : HarDom url ver primary manifest es) (hf : fromHar es = some out)
    (hnv : ∀ x ∈ out, hasVariantsHdr x.resp.headers = false)
    (hw : Bundle.write (bundleOfHar ver primary manifest out) = .ok (.ok bytes)) (hlen : bytes.length < 2 ^ 63) :
    ∃ b', Bundle.read url parseOk bytes = .ok b' ∧ b'.version = ver ∧ b'.primaryURL = primary ∧
      b'.manifestURL = manifest ∧ b'.signatures = none ∧
      ∃ σ : List Bundle.Exch, σ.Perm out ∧ b'.exchanges.length = σ.length ∧
        b'.exchanges.map (·.url) = σ.map (·.url) ∧
        ∀ i (hi : i < σ.length), ∃ e', b'.exchanges[i]? = some e' ∧ e'.url = σ[i].url ∧
          e'.resp.status = σ[i].resp.status ∧ e'.resp.body = σ[i].resp.body ∧
          e'.resp.headers.Perm (σ[i].resp.headers.map fun kv => (canonicalKey (lowerAscii kv.1), [joinComma kv.2])) := by
  have hdom : Bundle.RDomG url parseOk (bundleOfHar ver primary manifest out) := {
    urlsOk := by
      intro x hx
      obtain ⟨e, he, _, hex⟩ := hw_mem_origin es out hf x hx
      exact hd.urlsOk e he x.url (hw_toExch_url e x hex)
    urlsDistinct := har_urls_distinct es out hf hnv
    primaryOk := hd.primaryOk
    manifestOk := hd.manifestOk
    status := har_status es out hf
    hdrAscii := by
      intro x hx kv hkv
      obtain ⟨e, he, _, hex⟩ := hw_mem_origin es out hf x hx
      have h58 := (har_headers_clean es out hf x hx kv hkv).1
      rw [hw_toExch_headers e x hex] at hkv
      obtain ⟨hn, hv⟩ := hw_nvp_mem _ e.resH [] kv hkv
      refine ⟨?_, ?_, h58⟩
      · rcases hn with ⟨_, h0, _⟩ | ⟨nv, hnv', hk, _, _⟩
        · cases h0
        · rw [hk]; exact hw_ascii_canonicalKey _ (hd.hdrAscii e he nv hnv').1
      · intro v hv'
        rcases hv v hv' with ⟨_, h0, _⟩ | ⟨nv, hnv', hk⟩
        · cases h0
        · rw [hk]; exact (hd.hdrAscii e he nv hnv').2
    certsOk := by intro s hs; cases hs
    authIdx := by intro s hs; cases hs }
  obtain ⟨b', h1, h2, h3, h4, h5, σ, hσ, hl, hu, hi⟩ := C03.read_write url parseOk _ bytes hdom hw hlen
  exact ⟨b', h1, h2, h3, h4, h5, σ, hσ, hl, hu, hi⟩

/-! ## -headerOverride -/

theorem hw_values_hset (h : Headers) (n v : Bytes) : Http.values (hset h (canonicalKey n) v) n = [v] := by
  unfold Http.values
  induction h with
  | nil => simp [hset]
  | cons p h ih =>
    unfold hset
    by_cases hp : p.1 = canonicalKey n
    · simp [hp]
    · have : (p.1 == canonicalKey n) = false := by simpa using hp
      simp only [hp, if_false, List.find?_cons, this]
      exact ih

/-- **`-headerOverride 'Name: value'`** ("set additional response header, replacing any existing values"): afterwards every
    exchange answers `[TrimSpace value]` for `Name` (in any letter case of the flag), and URL, status and body are untouched. -/
theorem har_override_replaces (es es' : List Bundle.Exch) (h n v : Bytes) (hs : splitColon h = (n, some v))
    (ha : applyOverride es h = some es') :
    es'.length = es.length ∧ ∀ i (hi : i < es'.length) (hi' : i < es.length),
      Http.values es'[i].resp.headers n = [trimSpace v] ∧ es'[i].url = es[i].url ∧
      es'[i].resp.status = es[i].resp.status ∧ es'[i].resp.body = es[i].resp.body := by
  unfold applyOverride at ha
  simp only [hs, Option.some.injEq] at ha
  subst ha
  refine ⟨by simp, ?_⟩
  intro i hi hi'
  simp only [List.getElem_map]
  exact ⟨hw_values_hset _ n _, by simp⟩

/-- a `-headerOverride` value without a colon makes the tool panic (index out of range) as soon as there is one exchange;
    with no exchanges it is silently ignored — observation O17, not a violation of C20 (nothing is emitted) -/
theorem har_override_no_colon (es : List Bundle.Exch) (h n : Bytes) (hs : splitColon h = (n, none)) :
    applyOverride es h = if es.isEmpty then some es else none := by
  unfold applyOverride
  simp only [hs]

/-- **the tool as a whole.** When `gen-bundle -har` exits 0 having written `bytes`: `fromHar` succeeded with some exchange list, the
    overrides were applied, `bytes` is what `WriteTo` produced for the bundle assembled from the result, and — unless `-ignoreErrors` was
    given — a primary URL names one of the exchanges (`Validate`), so b1's fallback URL is always a resource of the bundle. Without
    overrides the exchange list is `fromHar`'s and `har_bundle_read_back` applies. -/
theorem har_validated_primary (ver : Bundle.BVer) (primary manifest : Option Bytes) (ig : Bool) (ovs : List Bytes) (entries : List Entry) (bytes : Bytes)
    (h : genBundle ver primary manifest ig ovs entries = .wrote bytes) :
    ∃ out0 out, fromHar entries = some out0 ∧ applyOverrides ovs out0 = some out ∧
      Bundle.write (bundleOfHar ver primary manifest out) = .ok (.ok bytes) ∧
      (ig = false → ∀ u, primary = some u → ∃ x ∈ out, x.url = u) := by
  unfold genBundle at h
  cases hf : fromHar entries with
  | none => simp [hf] at h
  | some out0 =>
    simp only [hf] at h
    cases ho : applyOverrides ovs out0 with
    | none => simp [ho] at h
    | some out =>
      simp only [ho] at h
      refine ⟨out0, out, rfl, ho, ?_, ?_⟩
      · split at h
        · cases h
        · unfold bundleOfHar
          split at h <;> first | (injection h with h; subst h; assumption) | cases h
      · intro hig u hu
        subst hig
        split at h
        · cases h
        · rename_i hv
          simp only [Bool.not_false, Bool.true_and, Bool.not_eq_true', Bool.not_eq_false] at hv
          unfold validate at hv
          simp only [hu] at hv
          obtain ⟨x, hx, hxu⟩ := List.any_eq_true.mp hv
          exact ⟨x, hx, by simpa using hxu⟩

end WebPkg.C20Har

/-! ## non-vacuity: a four-entry HAR (kept / POST dropped / status 99 dropped / same URL again without Variants dropped) -/
section Example
namespace WebPkg.C20Har
open WebPkg WebPkg.Http WebPkg.HarWalk

/-- "https://a.b/" -/
def ex_url : Bytes := [104, 116, 116, 112, 115, 58, 47, 47, 97, 46, 98, 47]
/-- "https://a.b/2" -/
def ex_url2 : Bytes := ex_url ++ [50]
/-- "POST" -/
def ex_post : Bytes := [80, 79, 83, 84]
/-- response headers: `content-type: a`, `:status: 200` (pseudo header), `SET-COOKIE: x` (uncached, upper case) -/
def ex_resH : List (Bytes × Bytes) :=
  [([99, 111, 110, 116, 101, 110, 116, 45, 116, 121, 112, 101], [97]),
   ([58, 115, 116, 97, 116, 117, 115], [50, 48, 48]),
   ([83, 69, 84, 45, 67, 79, 79, 75, 73, 69], [120])]
def ex_entries : List Entry :=
  [ { key := some ex_url, method := methodGet, status := 200, reqH := [], resH := ex_resH, body := some [104, 105] },
    { key := some ex_url2, method := ex_post, status := 200, reqH := [], resH := [], body := some [] },
    { key := some ex_url2, method := methodGet, status := 99, reqH := [], resH := [], body := some [] },
    { key := some ex_url, method := methodGet, status := 404, reqH := [], resH := [], body := some [120] } ]

/-- only the first entry survives, with `Content-Type` as its only header field -/
example : fromHar ex_entries =
    some [{ url := ex_url, resp := { status := 200, headers := [([67, 111, 110, 116, 101, 110, 116, 45, 84, 121, 112, 101], [[97]])], body := [104, 105] } }] := by
  decide +kernel

/-- an entry whose body does not decode aborts the run even though it would have been dropped for its method -/
example : fromHar [{ key := some ex_url, method := ex_post, status := 200, reqH := [], resH := [], body := none }] = none := by
  decide +kernel

/-- the hypotheses of `har_first_kept` are satisfiable (first entry of `ex_entries`) -/
example : eligible ex_entries[0] = true ∧ (toExch ex_entries[0]).isSome = true := by decide +kernel

/-- two representations of one URL are both kept when both carry `Variants` -/
example : (fromHar
    [ { key := some ex_url, method := methodGet, status := 200, reqH := [], resH := [(kVariants, [97])], body := some [1] },
      { key := some ex_url, method := methodGet, status := 200, reqH := [], resH := [(kVariants, [97])], body := some [2] } ]).map List.length
    = some 2 := by decide +kernel

end WebPkg.C20Har
end Example
