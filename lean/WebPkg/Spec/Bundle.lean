import WebPkg.Model.Bundle
import WebPkg.Spec.Sxg
/-
  draft-ietf-wpack-bundled-responses (b2) / draft-yasskin-wpack-bundled-exchanges (b1): what a well-formed
  bundle is, as judged independently of the Go writer: magic and version, a section-length table that
  exactly tiles the file with "responses" last, index entries that each delimit exactly one
  [headers, payload] response inside the responses section, canonical CBOR maps, trailing length = total size.
-/
namespace WebPkg.Spec.Bundle
open WebPkg.Cbor WebPkg.Bundle WebPkg.Spec.Sxg

/-- one encoded response `[bstr headerMap, bstr body]` whose header map is canonical CBOR from byte-string
    names to byte-string values containing ":status" -/
def IsResponse (r : Bytes) : Prop :=
  ∃ (pairs : List (Bytes × Bytes)) (hm body : Bytes), IsCanonicalMap hm pairs ∧
    (∃ st, (bstr Sxg.keyStatus, bstr st) ∈ pairs) ∧ (∀ p ∈ pairs, ∃ k v, p = (bstr k, bstr v)) ∧
    r = encodeHead 4 2 ++ bstr hm ++ bstr body

/-- the responses section: array head with the count, then the responses back to back -/
def IsResponses (sec : Bytes) (rs : List Bytes) : Prop :=
  (∀ r ∈ rs, IsResponse r) ∧ sec = encodeHead 4 rs.length ++ rs.flatten

/-- byte range `[off, off+len)` of `sec` is exactly the `i`-th response -/
def Delimits (sec : Bytes) (rs : List Bytes) (off len : Nat) : Prop :=
  ∃ i, i < rs.length ∧ off = (encodeHead 4 rs.length).length + ((rs.take i).map List.length).sum ∧ len = (rs.getD i []).length

/-- the value of one index entry: b2 `[offset, length]`; b1 `[variants-value, (offset, length)+]` -/
def IsIndexValue (ver : BVer) (sec : Bytes) (rs : List Bytes) (v : Bytes) : Prop :=
  match ver with
  | .b2 => ∃ off len, Delimits sec rs off len ∧ v = encodeHead 4 2 ++ encodeHead 0 off ++ encodeHead 0 len
  | .b1 => ∃ (vv : Bytes) (locs : List (Nat × Nat)), locs ≠ [] ∧ (∀ l ∈ locs, Delimits sec rs l.1 l.2) ∧
      v = encodeHead 4 (1 + locs.length * 2) ++ bstr vv ++ (locs.map fun l => encodeHead 0 l.1 ++ encodeHead 0 l.2).flatten

/-- the index section: canonical map from URL text strings to index values -/
def IsIndex (ver : BVer) (idx respSec : Bytes) (rs : List Bytes) : Prop :=
  ∃ pairs : List (Bytes × Bytes), IsCanonicalMap idx pairs ∧
    ∀ p ∈ pairs, (∃ u, p.1 = Spec.Sxg.tstr u ∧ utf8Valid u = true) ∧ IsIndexValue ver respSec rs p.2

structure WellFormed (ver : BVer) (bs : Bytes) : Prop where
  wf : ∃ (pre : Bytes) (sections : List (Bytes × Bytes)) (rs : List Bytes),
    -- magic + version (+ b1: primary URL text string)
    (match ver with
     | .b1 => ∃ u, utf8Valid u = true ∧ pre = BVer.magic .b1 ++ Spec.Sxg.tstr u
     | .b2 => pre = BVer.magic .b2) ∧
    -- the file is: prefix, section-length table (byte string holding [name, length]*), section count, the sections, trailing length
    bs = pre ++ bstr (encodeHead 4 (sections.length * 2) ++ (sections.map fun (s : Bytes × Bytes) => Spec.Sxg.tstr s.1 ++ encodeHead 0 s.2.length).flatten) ++
         encodeHead 4 sections.length ++ (sections.map (·.2)).flatten ++ bstr (beBytes 8 bs.length) ∧
    bs.length < 2 ^ 64 ∧
    -- section names are distinct, index first, responses last
    (sections.map (·.1)).Nodup ∧
    (∃ idx mid resp, sections = (nIndex, idx) :: mid ++ [(nResponses, resp)] ∧
      IsResponses resp rs ∧ IsIndex ver idx resp rs)

end WebPkg.Spec.Bundle
