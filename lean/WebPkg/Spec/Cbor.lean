import WebPkg.Model.Basic
/-
  RFC 8949 section 3, written as relations on byte strings (independent of the Go code):
  what a definite-length head is, what it denotes, and what a complete string item is.
-/
namespace WebPkg.Spec.Cbor

/-- `IsHead h mt n`: the bytes `h` are a definite-length head of major type `mt` with argument `n`
    (initial byte = 3 bits major type, 5 bits additional information; 0..23 immediate,
    24/25/26/27 = 1/2/4/8 following bytes big-endian; 28..30 reserved, 31 indefinite: no head). -/
inductive IsHead : Bytes → Nat → Nat → Prop
  | direct (mt n : Nat) : mt < 8 → n < 24 → IsHead [UInt8.ofNat (32 * mt + n)] mt n
  | one (mt n : Nat) : mt < 8 → n < 256 ^ 1 → IsHead (UInt8.ofNat (32 * mt + 24) :: beBytes 1 n) mt n
  | two (mt n : Nat) : mt < 8 → n < 256 ^ 2 → IsHead (UInt8.ofNat (32 * mt + 25) :: beBytes 2 n) mt n
  | four (mt n : Nat) : mt < 8 → n < 256 ^ 4 → IsHead (UInt8.ofNat (32 * mt + 26) :: beBytes 4 n) mt n
  | eight (mt n : Nat) : mt < 8 → n < 256 ^ 8 → IsHead (UInt8.ofNat (32 * mt + 27) :: beBytes 8 n) mt n

/-- preferred (shortest) serialization of a head, RFC 8949 section 4.2.1 -/
def ShortestHead (h : Bytes) (mt n : Nat) : Prop :=
  IsHead h mt n ∧ ∀ h', IsHead h' mt n → h.length ≤ h'.length

/-- a complete definite-length byte (mt = 2) or text (mt = 3) string item with content `c` -/
def IsString (mt : Nat) (item c : Bytes) : Prop :=
  ∃ h, IsHead h mt c.length ∧ item = h ++ c

/-- integer denoted by a head of major type 0 or 1 (RFC 8949 section 3.1) -/
def intValue (mt n : Nat) : Int := if mt = 0 then (n : Int) else -1 - (n : Int)

end WebPkg.Spec.Cbor
