import WebPkg.Model.Basic
/-
  RFC 8949 section 3, written as relations on byte strings (independent of the Go code):
  what a definite-length head is, what it denotes, and what a complete string item is.
-/
namespace WebPkg.Spec.Cbor

/-- `IsHead h mt n`: the bytes `h` are a definite-length head of major type `mt` with argument `n`
    (initial byte = 3 bits major type, 5 bits additional information; 0..23 immediate,
    24/25/26/27 = 1/2/4/8 following bytes big-endian; 28..30 reserved, 31 indefinite: no head). -/
inductive IsHead : Bytes → Nat → Nat → Prop
  | direct (mt n : Nat) : mt < 8 → n < 24 → IsHead [UInt8.ofNat (32 * mt + n)] mt n
  | one (mt n : Nat) : mt < 8 → n < 256 ^ 1 → IsHead (UInt8.ofNat (32 * mt + 24) :: beBytes 1 n) mt n
  | two (mt n : Nat) : mt < 8 → n < 256 ^ 2 → IsHead (UInt8.ofNat (32 * mt + 25) :: beBytes 2 n) mt n
  | four (mt n : Nat) : mt < 8 → n < 256 ^ 4 → IsHead (UInt8.ofNat (32 * mt + 26) :: beBytes 4 n) mt n
  | eight (mt n : Nat) : mt < 8 → n < 256 ^ 8 → IsHead (UInt8.ofNat (32 * mt + 27) :: beBytes 8 n) mt n

/-- preferred (shortest) serialization of a head, RFC 8949 section 4.2.1 -/
def ShortestHead (h : Bytes) (mt n : Nat) : Prop :=
  IsHead h mt n ∧ ∀ h', IsHead h' mt n → h.length ≤ h'.length

/-- a complete definite-length byte (mt = 2) or text (mt = 3) string item with content `c` -/
def IsString (mt : Nat) (item c : Bytes) : Prop :=
  ∃ h, IsHead h mt c.length ∧ item = h ++ c

/-- integer denoted by a head of major type 0 or 1 (RFC 8949 section 3.1) -/
def intValue (mt n : Nat) : Int := if mt = 0 then (n : Int) else -1 - (n : Int)

end WebPkg.Spec.Cbor

namespace WebPkg.Spec.Cbor

/-- bytewise lexicographic order (RFC 8949 section 4.2.1: "the bytewise lexicographic order of the
    keys' deterministic encodings"), defined directly on byte strings -/
inductive LexLt : Bytes → Bytes → Prop
  | nil (b : UInt8) (bs : Bytes) : LexLt [] (b :: bs)
  | head (a b : UInt8) (as bs : Bytes) : a < b → LexLt (a :: as) (b :: bs)
  | tail (a : UInt8) (as bs : Bytes) : LexLt as bs → LexLt (a :: as) (a :: bs)

/-- A single data item in RFC 8949 core deterministic encoding (section 4.2.1), restricted to the
    subset unsigned integer / byte string / text string / array / map: every head in shortest form,
    definite lengths only, map keys strictly ascending in bytewise lexicographic order of their
    encodings (hence no duplicates). -/
inductive DetItem : Bytes → Prop
  | uint (h : Bytes) (n : Nat) : ShortestHead h 0 n → DetItem h
  | str (mt : Nat) (h c : Bytes) : mt = 2 ∨ mt = 3 → ShortestHead h mt c.length → DetItem (h ++ c)
  | array (h : Bytes) (items : List Bytes) : ShortestHead h 4 items.length →
      (∀ i ∈ items, DetItem i) → DetItem (h ++ items.flatten)
  | map (h : Bytes) (kvs : List (Bytes × Bytes)) : ShortestHead h 5 kvs.length →
      (∀ kv ∈ kvs, DetItem kv.1) → (∀ kv ∈ kvs, DetItem kv.2) →
      kvs.Pairwise (fun a b => LexLt a.1 b.1) →
      DetItem (h ++ (kvs.map fun kv => kv.1 ++ kv.2).flatten)

/-- a CBOR sequence of deterministically encoded items -/
def DetSeq (bs : Bytes) : Prop := ∃ items : List Bytes, (∀ i ∈ items, DetItem i) ∧ bs = items.flatten

end WebPkg.Spec.Cbor
