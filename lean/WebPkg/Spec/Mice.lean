import WebPkg.Model.Basic
/-
  draft-thomson-http-mice: the recursive definition of the integrity proofs and of the encoded
  body, written from the draft text (independent of the Go loops).
-/
namespace WebPkg.Spec.Mice

variable (H : Bytes → Bytes)

/-- split a payload into records of `rs` bytes, the last one possibly shorter (`rs ≥ 1`) -/
def chunks (rs : Nat) (p : Bytes) : List Bytes :=
  if h : p.length = 0 ∨ rs = 0 then [] else p.take rs :: chunks rs (p.drop rs)
termination_by p.length
decreasing_by simp; omega

/-- proof of the first record of a non-empty record list:
    `proof(last) = H(last ‖ 0)`, `proof(r_i) = H(r_i ‖ proof(r_{i+1}) ‖ 1)` -/
def chain : List Bytes → Bytes
  | [] => []
  | [r] => H (r ++ [0])
  | r :: rs => H (r ++ chain rs ++ [1])

/-- encoded body after the record-size field: `r_0 ‖ proof(r_1) ‖ r_1 ‖ proof(r_2) ‖ …` -/
def body : List Bytes → Bytes
  | [] => []
  | [r] => r
  | r :: rs => r ++ chain H rs ++ body rs

/-- the record list the digest of a payload commits to: the empty payload is one empty record
    (draft-02 sends it as such; draft-03 sends nothing at all but uses the same proof `H(0x00)`) -/
def recordsOf (rs : Nat) (p : Bytes) : List Bytes := if p.length = 0 then [[]] else chunks rs p

/-- top-level integrity proof of a payload -/
def topProof (rs : Nat) (p : Bytes) : Bytes := chain H (recordsOf rs p)

/-- the encoded stream: 8-byte big-endian record size, then the body; draft-03 encodes the empty
    payload as the empty stream -/
def stream (draft03 : Bool) (rs : Nat) (p : Bytes) : Bytes :=
  if draft03 = true ∧ p.length = 0 then [] else beBytes 8 rs ++ body H (recordsOf rs p)

def Collision : Prop := ∃ x y : Bytes, x ≠ y ∧ H x = H y

end WebPkg.Spec.Mice
