import WebPkg.Model.SxgVerify
/-
  The acceptance conditions of draft-yasskin-http-origin-signed-responses (sections 3.5, 4, 5) /
  draft-yasskin-httpbis-origin-signed-exchanges-impl, as a plain conjunction.  `Acceptable env e t s p`:
  signature `s` (already extracted from the Signature header) makes exchange `e` valid at time `t`
  with decoded payload `p`.
-/
namespace WebPkg.Spec.Policy
open WebPkg.Sxg WebPkg.Http

structure Acceptable (env : Env) (e : Exchange) (t : GoTime.T) (s : Signature) (p : Bytes) : Prop where
  /-- both URLs parse and validity-url is same-origin with the request URL -/
  origin : ∃ vu ru, env.url s.validityUrl = some vu ∧ env.url e.uri = some ru ∧ sameOrigin vu ru = true
  /-- the certificate chain at cert-url is fetched and parsed; its first certificate is `main` -/
  chain : ∃ certBytes main rest, env.fetch s.certUrl = some certBytes ∧
      CertChain.read env.parseOk certBytes = some (main :: rest) ∧ env.keyOk main.cert = true ∧
      /- the signature parameter cert-sha256 is the hash of that certificate -/
      s.certSha256 = env.H main.cert ∧
      /- the signature verifies, under the certificate's key, over the message rebuilt from the exchange -/
      ∃ msg, signedMessage e (some (env.H main.cert)) s.validityUrl s.date s.expires = some msg ∧
        env.sigVerify main.cert msg s.sig = true
  /-- date ≤ t ≤ expires and lifetime ≤ 7 days (Go time semantics) -/
  time : timestampsOk s t = true
  /-- integrity scheme matches the version and the payload decodes under the signed digest header -/
  payload : verifyPayload env e s = some p
  /-- b3: Content-Type present -/
  contentType : e.version = .b3 → joined e.respHeaders hContentType ≠ []
  /-- b1/b2: safe, cacheable method -/
  method : (e.version = .b1 ∨ e.version = .b2) → (e.method = mGET ∨ e.method = mHEAD)
  /-- b3: storable by a shared cache -/
  cacheable : e.version = .b3 → isCacheable env e = true
  /-- no stateful request header, no uncached response header (any letter case) -/
  headers : headersOk e = true

end WebPkg.Spec.Policy
