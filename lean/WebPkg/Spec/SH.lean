import WebPkg.Model.StructuredHeader
/-
  The subset of draft-ietf-httpbis-header-structure-09 section 4.2 that this repository implements
  (integers only, no booleans/floats), as inductive derivation relations `string ⊢ value`, written
  from the ABNF and independent of the recursive-descent code:

    OWS            = *( SP / HTAB )
    param-list     = OWS param-id *( OWS "," OWS param-id ) OWS
    param-id       = token *( OWS ";" OWS key [ "=" item ] )          ; keys pairwise distinct
    list-of-lists  = OWS inner *( OWS "," OWS inner ) OWS
    inner          = item *( OWS ";" OWS item )
    item           = integer / string / token / byte-seq
    integer        = ["-"] 1*DIGIT                                      ; value within int64
    string         = DQUOTE *( unescaped / "\" ( DQUOTE / "\" ) ) DQUOTE ; unescaped = %x20-21 / %x23-5B / %x5D-7E
    token          = ALPHA *( ALPHA / DIGIT / "_" / "-" / "." / ":" / "%" / "*" / "/" )
    key            = lcalpha *( lcalpha / DIGIT / "_" / "-" )
    byte-seq       = "*" base64 "*"          ; base64 as accepted by Go's (Raw)StdEncoding, padded iff len mod 4 = 0
-/
namespace WebPkg.Spec.SH
open WebPkg.SH

def IsOWS (w : Bytes) : Prop := ∀ c ∈ w, c = 32 ∨ c = 9

def IsToken (t : Bytes) : Prop := ∃ c r, t = c :: r ∧ isAlpha c = true ∧ ∀ x ∈ r, isTokenChar x = true
def IsKey (k : Bytes) : Prop := ∃ c r, k = c :: r ∧ isLCAlpha c = true ∧ ∀ x ∈ r, isKeyChar x = true

/-- `StrBody e d`: the characters `e` between the quotes denote the string `d` -/
inductive StrBody : Bytes → Bytes → Prop
  | nil : StrBody [] []
  | plain (c : UInt8) (e d : Bytes) : 32 ≤ c → c ≤ 126 → c ≠ 34 → c ≠ 92 → StrBody e d → StrBody (c :: e) (c :: d)
  | esc (c : UInt8) (e d : Bytes) : c = 34 ∨ c = 92 → StrBody e d → StrBody (92 :: c :: e) (c :: d)

inductive ItemD : Bytes → Item → Prop
  | pos (ds : Bytes) : ds ≠ [] → (∀ d ∈ ds, isDigit d = true) → digitsVal ds < 2 ^ 63 →
      ItemD ds (.int (digitsVal ds))
  | neg (ds : Bytes) : ds ≠ [] → (∀ d ∈ ds, isDigit d = true) → digitsVal ds ≤ 2 ^ 63 →
      ItemD (45 :: ds) (.int (-(digitsVal ds : Int)))
  | str (e d : Bytes) : StrBody e d → ItemD (34 :: e ++ [34]) (.str d)
  | token (t : Bytes) : IsToken t → ItemD t (.token t)
  | bytes (s d : Bytes) : (∀ c ∈ s, c ≠ 42) → Base64.decode false (s.length % 4 == 0) s = some d →
      ItemD (42 :: s ++ [42]) (.bytes d)

/-- `*( OWS ";" OWS key [ "=" item ] )` -/
inductive ParamsD : Bytes → Params → Prop
  | nil : ParamsD [] []
  | flag (w1 w2 key rest : Bytes) (ps : Params) : IsOWS w1 → IsOWS w2 → IsKey key → ParamsD rest ps →
      ParamsD (w1 ++ [59] ++ w2 ++ key ++ rest) ((key, none) :: ps)
  | val (w1 w2 key ie rest : Bytes) (i : Item) (ps : Params) : IsOWS w1 → IsOWS w2 → IsKey key → ItemD ie i →
      ParamsD rest ps → ParamsD (w1 ++ [59] ++ w2 ++ key ++ [61] ++ ie ++ rest) ((key, some i) :: ps)

def PID (s : Bytes) (pi : PI) : Prop :=
  ∃ ps, s = pi.label ++ ps ∧ IsToken pi.label ∧ ParamsD ps pi.params ∧ (pi.params.map Prod.fst).Nodup

/-- `*( OWS "," OWS param-id ) OWS` -/
inductive PLTail : Bytes → List PI → Prop
  | done (w : Bytes) : IsOWS w → PLTail w []
  | more (w1 w2 s rest : Bytes) (pi : PI) (pis : List PI) : IsOWS w1 → IsOWS w2 → PID s pi → PLTail rest pis →
      PLTail (w1 ++ [44] ++ w2 ++ s ++ rest) (pi :: pis)

/-- a complete Parameterised List header value -/
def PLD (s : Bytes) (pl : List PI) : Prop :=
  ∃ w s1 rest pi pis, IsOWS w ∧ PID s1 pi ∧ PLTail rest pis ∧ s = w ++ s1 ++ rest ∧ pl = pi :: pis

/-- `*( OWS ";" OWS item )` -/
inductive InnerTail : Bytes → List Item → Prop
  | nil : InnerTail [] []
  | more (w1 w2 ie rest : Bytes) (i : Item) (is : List Item) : IsOWS w1 → IsOWS w2 → ItemD ie i → InnerTail rest is →
      InnerTail (w1 ++ [59] ++ w2 ++ ie ++ rest) (i :: is)

def InnerD (s : Bytes) (inner : List Item) : Prop :=
  ∃ ie rest i is, ItemD ie i ∧ InnerTail rest is ∧ s = ie ++ rest ∧ inner = i :: is

/-- `*( OWS "," OWS inner ) OWS` -/
inductive LLTail : Bytes → List (List Item) → Prop
  | done (w : Bytes) : IsOWS w → LLTail w []
  | more (w1 w2 s rest : Bytes) (inner : List Item) (ls : List (List Item)) : IsOWS w1 → IsOWS w2 → InnerD s inner →
      LLTail rest ls → LLTail (w1 ++ [44] ++ w2 ++ s ++ rest) (inner :: ls)

/-- a complete List of Lists header value -/
def LLD (s : Bytes) (ll : List (List Item)) : Prop :=
  ∃ w s1 rest inner ls, IsOWS w ∧ InnerD s1 inner ∧ LLTail rest ls ∧ s = w ++ s1 ++ rest ∧ ll = inner :: ls

end WebPkg.Spec.SH
