import WebPkg.Model.Sxg
import WebPkg.Spec.Cbor
/-
  draft-yasskin-http-origin-signed-responses (and the -impl drafts for b1/b2/b3), recomputed from the
  spec text, independently of the Go serializers:
  * section 3.4 / 3.2: CBOR representation of exchange headers: a canonical CBOR map from byte-string
    names (lower-case; pseudo-headers ":status", ":method", ":url") to byte-string values;
  * section 3.5 step 7: the signed message;
  * section 5.3: the application/signed-exchange file layout;
  * section 3.1: the Signature header as a parameterised list with one item.
  Canonical CBOR maps are specified *declaratively*: the unique strictly key-sorted arrangement.
-/
namespace WebPkg.Spec.Sxg
open WebPkg.Cbor WebPkg.Http WebPkg.Sxg

/-- CBOR byte string item with shortest head -/
def bstr (b : Bytes) : Bytes := encodeHead 2 b.length ++ b
/-- CBOR text string item with shortest head -/
def tstr (b : Bytes) : Bytes := encodeHead 3 b.length ++ b

/-- `IsCanonicalMap out pairs`: `out` is the canonical CBOR encoding of the map whose entries are the
    (already encoded key, already encoded value) `pairs`: map head with the count, then the entries in
    strictly ascending bytewise order of the encoded keys (RFC 8949 section 4.2.1). -/
def IsCanonicalMap (out : Bytes) (pairs : List (Bytes × Bytes)) : Prop :=
  ∃ sorted : List (Bytes × Bytes), sorted.Perm pairs ∧
    sorted.Pairwise (fun a b => Spec.Cbor.LexLt a.1 b.1) ∧
    out = encodeHead 5 pairs.length ++ (sorted.map fun p => p.1 ++ p.2).flatten

/-- header fields as (name, value) pairs: lower-cased name, values joined with "," -/
def fieldPairs (hs : Headers) : List (Bytes × Bytes) :=
  hs.map fun (n, vs) => (bstr (lowerAscii n), bstr (joinComma vs))

def responsePairs (e : Exchange) : List (Bytes × Bytes) :=
  (bstr keyStatus, bstr (SH.formatInt e.status)) :: fieldPairs e.respHeaders

def requestPairs (e : Exchange) : List (Bytes × Bytes) :=
  (bstr keyMethod, bstr e.method) :: ((if e.version = .b1 then [(bstr keyURL, bstr e.uri)] else []) ++ fieldPairs e.reqHeaders)

/-- the signed headers block: b3 = response map; b1/b2 = array [request map, response map] -/
def IsHeaders (e : Exchange) (hdr : Bytes) : Prop :=
  if e.version = .b3 then IsCanonicalMap hdr (responsePairs e)
  else ∃ rq rs, IsCanonicalMap rq (requestPairs e) ∧ IsCanonicalMap rs (responsePairs e) ∧ hdr = encodeHead 4 2 ++ rq ++ rs

def u64 (n : Nat) : Bytes := beBytes 8 n
def spaces64 : Bytes := List.replicate 64 32

/-- section 3.5 step 7 (b2/b3): 64 spaces, context string, 0, 32 ‖ cert-sha256, then length-prefixed
    validity-url, date, expires, requestUrl, headers (all 8-byte big-endian) -/
def messageB23 (e : Exchange) (certSha : Bytes) (validityUrl : Bytes) (date expires : Nat) (hdr : Bytes) : Bytes :=
  spaces64 ++ e.version.context ++ [0] ++ [32] ++ certSha ++
  u64 validityUrl.length ++ validityUrl ++ u64 date ++ u64 expires ++ u64 e.uri.length ++ e.uri ++ u64 hdr.length ++ hdr

/-- b1: 64 spaces, context, 0, canonical CBOR map {cert-sha256, validity-url, date, expires, headers} -/
def IsMessageB1 (e : Exchange) (certSha validityUrl : Bytes) (date expires : Int) (hdr msg : Bytes) : Prop :=
  ∃ m, IsCanonicalMap m [(tstr kCertSha256, bstr certSha), (tstr kValidityUrl, bstr validityUrl),
      (tstr kDate, encodeInt date), (tstr kExpires, encodeInt expires), (tstr kHeaders, hdr)] ∧
    msg = spaces64 ++ e.version.context ++ [0] ++ m

/-- section 5.3 file layout -/
def fileLayout (e : Exchange) (hdr : Bytes) : Bytes :=
  if e.version = .b1 then
    e.version.magic ++ beBytes 3 e.sigHeader.length ++ beBytes 3 hdr.length ++ e.sigHeader ++ hdr ++ e.payload
  else
    e.version.magic ++ beBytes 2 e.uri.length ++ e.uri ++ beBytes 3 e.sigHeader.length ++ beBytes 3 hdr.length ++
      e.sigHeader ++ hdr ++ e.payload

/-- section 3.1: `label;cert-sha256=*..*;cert-url="..";date=N;expires=N;integrity="..";sig=*..*;validity-url=".."`
    (parameters in sorted order, byte sequences in padded standard base64, strings quoted) -/
def signatureHeader (v : Ver) (sig validityUrl certUrl certSha : Bytes) (date expires : Int) : Bytes :=
  kLabel ++ [59] ++ kCertSha256 ++ [61, 42] ++ Base64.encode false true certSha ++ [42] ++
  [59] ++ kCertUrl ++ [61] ++ SH.quote certUrl ++
  [59] ++ kDate ++ [61] ++ SH.formatInt date ++
  [59] ++ kExpires ++ [61] ++ SH.formatInt expires ++
  [59] ++ kIntegrity ++ [61] ++ SH.quote v.mice.integrityIdentifier ++
  [59] ++ kSig ++ [61, 42] ++ Base64.encode false true sig ++ [42] ++
  [59] ++ kValidityUrl ++ [61] ++ SH.quote validityUrl

end WebPkg.Spec.Sxg
