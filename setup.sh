#!/bin/bash
# Build everything from files on disk (offline): all Lean proofs + the model driver, and a warm-up
# build of the Go harness from /repo's working tree.
set -e
cd "$(dirname "$0")"
export GOFLAGS=-mod=mod GOPROXY=off GOSUMDB=off GOTOOLCHAIN=local
if [ -f tools/extract_facts.py ]; then python3 tools/extract_facts.py /repo lean/WebPkg/Gen/Facts.lean; fi
(cd lean && lake build)
mkdir -p build
./harness/build.sh build/harness || echo "warning: harness warm-up build failed"
