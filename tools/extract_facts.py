#!/usr/bin/env python3
"""Regenerate lean/WebPkg/Gen/Facts.lean (tools/extract: literal sets and tables) and lean/WebPkg/Gen/Funcs<Pkg>.lean
(tools/xlate: the pure scalar / dispatch functions of the Go sources translated to Lean definitions) from the repository.
A package whose whitelisted function left the translator's fragment gets NO module (the stale one is deleted), so the
tie modules that import it stop building and the check reports the broken tie.
usage: extract_facts.py <repo> <out Facts.lean>"""
import os, subprocess, sys


def put(path, text):
    # atomic: a check of another property running at the same time never sees a half-written module
    tmp = f'{path}.{os.getpid()}.tmp'
    open(tmp, 'w').write(text)
    os.replace(tmp, path)


repo, out = sys.argv[1], sys.argv[2]
here = os.path.dirname(os.path.abspath(__file__))
env = dict(os.environ, GOFLAGS='-mod=mod', GOPROXY='off', GOSUMDB='off', GOTOOLCHAIN='local', GO111MODULE='off')
r = subprocess.run(['go', 'run', 'main.go', repo], cwd=os.path.join(here, 'extract'), env=env, capture_output=True, text=True)
if r.returncode != 0 or 'namespace WebPkg.Facts' not in r.stdout:
    sys.stdout.write((r.stderr or r.stdout)[-400:])
    sys.exit(1)
os.makedirs(os.path.dirname(out), exist_ok=True)
old = open(out).read() if os.path.exists(out) else None
if old != r.stdout:            # keep the mtime when nothing changed: no rebuild
    put(out, r.stdout)

# function-level translation, one module per Go package
errs = []
for tag in ('sh', 'cbor', 'mice', 'sxgver', 'bundlever'):
    dst = os.path.join(os.path.dirname(out), 'Funcs' + tag[0].upper() + tag[1:] + '.lean')
    r = subprocess.run(['go', 'run', 'main.go', repo, tag], cwd=os.path.join(here, 'xlate'), env=env, capture_output=True, text=True)
    if r.returncode != 0 or 'namespace WebPkg.Gen.Funcs' not in r.stdout:
        if os.path.exists(dst):
            os.remove(dst)
        errs.append(f'xlate {tag}: ' + ((r.stderr or r.stdout).strip().splitlines() or ['failed'])[0][:300])
        continue
    old = open(dst).read() if os.path.exists(dst) else None
    if old != r.stdout:
        put(dst, r.stdout)
# shared-state touch points of the library packages (tie for C18)
dst = os.path.join(os.path.dirname(out), 'Purity.lean')
r = subprocess.run(['go', 'run', 'main.go', repo], cwd=os.path.join(here, 'purity'), env=env, capture_output=True, text=True)
if r.returncode != 0 or 'namespace WebPkg.Purity' not in r.stdout:
    if os.path.exists(dst):
        os.remove(dst)
    errs.append('xlate purity: ' + ((r.stderr or r.stdout).strip().splitlines() or ['failed'])[0][:300])
else:
    old = open(dst).read() if os.path.exists(dst) else None
    if old != r.stdout:
        put(dst, r.stdout)
if errs:
    sys.stdout.write(' | '.join(errs))
    sys.exit(1)
