#!/usr/bin/env python3
"""Regenerate lean/WebPkg/Gen/Facts.lean from the Go sources of the repository (tools/extract/main.go, go/ast).
usage: extract_facts.py <repo> <out.lean>"""
import os, subprocess, sys
repo, out = sys.argv[1], sys.argv[2]
here = os.path.dirname(os.path.abspath(__file__))
env = dict(os.environ, GOFLAGS='-mod=mod', GOPROXY='off', GOSUMDB='off', GOTOOLCHAIN='local', GO111MODULE='off')
r = subprocess.run(['go', 'run', 'main.go', repo], cwd=os.path.join(here, 'extract'), env=env, capture_output=True, text=True)
if r.returncode != 0 or 'namespace WebPkg.Facts' not in r.stdout:
    sys.stdout.write((r.stderr or r.stdout)[-400:])
    sys.exit(1)
os.makedirs(os.path.dirname(out), exist_ok=True)
old = open(out).read() if os.path.exists(out) else None
if old != r.stdout:            # keep the mtime when nothing changed: no rebuild
    open(out, 'w').write(r.stdout)
