// Shared-state fact extractor (regenerated tie for C18): for every library package of the repository (no cmd/, no tests) lists
//   * its package-level variables,
//   * every place outside init() / variable initialisers where a function body touches package-level state in a way that can
//     make a serializer impure or racy: assignment / inc-dec / address-of / append-to / method call on a package-level
//     variable, and every use of package sync, sync/atomic, math/rand, time.Now, os.Getenv.
// Proofs/FactsTie/Purity.lean states that this list is exactly the audited one.
package main

import (
	"fmt"
	"go/ast"
	"go/parser"
	"go/token"
	"os"
	"path/filepath"
	"sort"
	"strings"
)

func leanStr(s string) string { return "\"" + strings.ReplaceAll(s, "\"", "\\\"") + "\"" }

func root(e ast.Expr) *ast.Ident {
	for {
		switch x := e.(type) {
		case *ast.Ident:
			return x
		case *ast.SelectorExpr:
			e = x.X
		case *ast.IndexExpr:
			e = x.X
		case *ast.StarExpr:
			e = x.X
		case *ast.ParenExpr:
			e = x.X
		case *ast.SliceExpr:
			e = x.X
		default:
			return nil
		}
	}
}

func main() {
	repo := os.Args[1]
	pkgs := map[string][]string{} // dir -> files
	filepath.Walk(filepath.Join(repo, "go"), func(p string, info os.FileInfo, err error) error {
		if err != nil {
			return nil
		}
		if info.IsDir() {
			if info.Name() == "cmd" || info.Name() == "testdata" || info.Name() == "testhelper" || strings.HasPrefix(info.Name(), ".") {
				return filepath.SkipDir
			}
			return nil
		}
		if strings.HasSuffix(p, ".go") && !strings.HasSuffix(p, "_test.go") {
			pkgs[filepath.Dir(p)] = append(pkgs[filepath.Dir(p)], p)
		}
		return nil
	})
	dirs := []string{}
	for d := range pkgs {
		dirs = append(dirs, d)
	}
	sort.Strings(dirs)
	vars, touches := []string{}, []string{}
	for _, d := range dirs {
		rel, _ := filepath.Rel(repo, d)
		fset := token.NewFileSet()
		sort.Strings(pkgs[d])
		files := []*ast.File{}
		pv := map[string]bool{}
		for _, fn := range pkgs[d] {
			f, err := parser.ParseFile(fset, fn, nil, 0)
			if err != nil {
				fmt.Fprintf(os.Stderr, "purity: %v\n", err)
				os.Exit(1)
			}
			if strings.HasSuffix(f.Name.Name, "_test") {
				continue
			}
			files = append(files, f)
			for _, dcl := range f.Decls {
				if gd, ok := dcl.(*ast.GenDecl); ok && gd.Tok == token.VAR {
					for _, sp := range gd.Specs {
						for _, n := range sp.(*ast.ValueSpec).Names {
							if n.Name != "_" {
								pv[n.Name] = true
								vars = append(vars, rel+"."+n.Name)
							}
						}
					}
				}
			}
		}
		isPV := func(id *ast.Ident) bool {
			if id == nil || !pv[id.Name] {
				return false
			}
			if id.Obj == nil {
				return true // declared in another file of the package
			}
			if vs, ok := id.Obj.Decl.(*ast.ValueSpec); ok {
				// file-scope declaration?
				for _, f := range files {
					for _, dcl := range f.Decls {
						if gd, ok := dcl.(*ast.GenDecl); ok {
							for _, sp := range gd.Specs {
								if sp == ast.Spec(vs) {
									return true
								}
							}
						}
					}
				}
			}
			return false
		}
		for _, f := range files {
			imports := map[string]string{}
			for _, im := range f.Imports {
				path := strings.Trim(im.Path.Value, "\"")
				name := filepath.Base(path)
				if im.Name != nil {
					name = im.Name.Name
				}
				imports[name] = path
			}
			for _, dcl := range f.Decls {
				fd, ok := dcl.(*ast.FuncDecl)
				if !ok || fd.Body == nil || (fd.Name.Name == "init" && fd.Recv == nil) {
					continue
				}
				fname := fd.Name.Name
				if fd.Recv != nil && len(fd.Recv.List) > 0 {
					t := fd.Recv.List[0].Type
					if st, ok := t.(*ast.StarExpr); ok {
						t = st.X
					}
					if id, ok := t.(*ast.Ident); ok {
						fname = id.Name + "." + fname
					}
				}
				add := func(kind, what string) {
					touches = append(touches, fmt.Sprintf("%s:%s:%s:%s", rel, fname, kind, what))
				}
				ast.Inspect(fd.Body, func(n ast.Node) bool {
					switch x := n.(type) {
					case *ast.AssignStmt:
						if x.Tok != token.DEFINE {
							for _, l := range x.Lhs {
								if id := root(l); isPV(id) {
									add("assign", id.Name)
								}
							}
						}
					case *ast.IncDecStmt:
						if id := root(x.X); isPV(id) {
							add("incdec", id.Name)
						}
					case *ast.RangeStmt:
						if x.Tok == token.ASSIGN {
							for _, l := range []ast.Expr{x.Key, x.Value} {
								if l != nil {
									if id := root(l); isPV(id) {
										add("assign", id.Name)
									}
								}
							}
						}
					case *ast.UnaryExpr:
						if x.Op == token.AND {
							if id := root(x.X); isPV(id) {
								add("addr", id.Name)
							}
						}
					case *ast.CallExpr:
						if fid, ok := x.Fun.(*ast.Ident); ok && fid.Name == "append" && len(x.Args) > 0 {
							if id := root(x.Args[0]); isPV(id) {
								add("append", id.Name)
							}
						}
						if fid, ok := x.Fun.(*ast.Ident); ok && fid.Name == "copy" && len(x.Args) > 0 {
							if id := root(x.Args[0]); isPV(id) {
								add("copy-into", id.Name)
							}
						}
						if se, ok := x.Fun.(*ast.SelectorExpr); ok {
							if id := root(se.X); isPV(id) {
								add("method", id.Name+"."+se.Sel.Name)
							}
						}
					case *ast.SelectorExpr:
						if id, ok := x.X.(*ast.Ident); ok && id.Obj == nil {
							switch imports[id.Name] {
							case "sync", "sync/atomic", "math/rand", "unsafe":
								add("uses", imports[id.Name]+"."+x.Sel.Name)
							case "time":
								if x.Sel.Name == "Now" || x.Sel.Name == "Since" || x.Sel.Name == "Until" {
									add("uses", "time."+x.Sel.Name)
								}
							case "os":
								if x.Sel.Name == "Getenv" || x.Sel.Name == "LookupEnv" || x.Sel.Name == "Environ" {
									add("uses", "os."+x.Sel.Name)
								}
							}
						}
					}
					return true
				})
			}
			// struct fields / package-level vars of sync types also count (a pool or a Once hidden in a declaration)
			ast.Inspect(f, func(n ast.Node) bool {
				if se, ok := n.(*ast.SelectorExpr); ok {
					if id, ok := se.X.(*ast.Ident); ok && id.Obj == nil && (imports[id.Name] == "sync" || imports[id.Name] == "sync/atomic") {
						touches = append(touches, fmt.Sprintf("%s:(decl):uses:%s.%s", rel, imports[id.Name], se.Sel.Name))
					}
				}
				return true
			})
		}
	}
	uniq := func(l []string) []string {
		sort.Strings(l)
		out := []string{}
		for i, s := range l {
			if i == 0 || s != l[i-1] {
				out = append(out, s)
			}
		}
		return out
	}
	vars, touches = uniq(vars), uniq(touches)
	fmt.Println("/- GENERATED by tools/purity from the Go sources of the repository on every run. Do not edit. -/")
	fmt.Println("namespace WebPkg.Purity")
	fmt.Println("/-- package-level variables of the library packages (no cmd/, no tests) -/")
	q := func(l []string) string {
		if len(l) == 0 {
			return "[]"
		}
		p := make([]string, len(l))
		for i, s := range l {
			p[i] = leanStr(s)
		}
		return "[\n  " + strings.Join(p, ",\n  ") + "]"
	}
	fmt.Printf("def packageVars : List String := %s\n", q(vars))
	fmt.Println("/-- places outside init() where a function touches package-level state or a source of nondeterminism: dir:func:kind:what -/")
	fmt.Printf("def sharedStateTouches : List String := %s\n", q(touches))
	fmt.Println("end WebPkg.Purity")
}
