#!/usr/bin/env python3
"""Print the markdown table of seeded changes and what the checks made of them (from seeded/*/meta.json)."""
import json, glob, os, re
rows = []
for d in sorted(glob.glob(os.path.join(os.path.dirname(os.path.dirname(os.path.abspath(__file__))), 'seeded', '*'))):
    mp = os.path.join(d, 'meta.json')
    if not os.path.exists(mp):
        continue
    m = json.load(open(mp))
    name = os.path.basename(d)
    pid = m['property_id']
    readme = open(os.path.join(d, 'README.md')).read() if os.path.exists(os.path.join(d, 'README.md')) else ''
    title = next((l.strip('# ').strip() for l in readme.splitlines() if l.startswith('#')), '')
    patch = open(os.path.join(d, 'patch.diff')).read()
    files = sorted(set(re.findall(r'^\+\+\+ b/(\S+)', patch, re.M)))
    det = m.get('detection', {})
    def cell(tier):
        r = det.get(tier, {})
        if not r: return '–'
        return ', '.join(f"{c}:{'caught' if v.get('detected') else 'missed'}" for c, v in sorted(r.items()))
    hist = m.get('history', {})
    first = hist.get('first_quick', '').replace('detected', 'caught') or '(not recorded)'
    rows.append((name, ', '.join(os.path.basename(f) for f in files), title[:110], first, cell('quick')))
print('Seeded breaking changes (one directory each: patch.diff, demo_test.go, README.md, meta.json). "first run" = the quick check of the')
print('seed\'s property on the day the seed arrived, before the strengthening it prompted; "now" = the last full sweep (quick tier).')
print('(For rounds 1 and 2 the first run was recorded in other checks\' columns as well; only the property\'s own check is listed here.)')
print()
print('| seed | file(s) | change (title of the sub-agent\'s README) | first run | now |')
print('|---|---|---|---|---|')
for r in rows:
    print('| ' + ' | '.join(x.replace('|', '/') for x in r) + ' |')
