#!/usr/bin/env python3
"""Confirm a seeded change (from a sub-agent) in a scratch worktree, store it under /verif/seeded/<id>-<X>/,
and (with --detect) run this repository's checks against it with the patch applied to /repo (undone afterwards).
usage: seedcheck.py confirm <src dir> <id> <X>      # src dir holds patch.diff, demo_test.go, README.md
       seedcheck.py detect <id>-<X> [--tier quick|thorough] [--checks C01,C02]"""
import sys, os, re, json, subprocess, shutil, tempfile, time
ENV = dict(os.environ, GOFLAGS='-mod=mod', GOPROXY='off', GOSUMDB='off', GOTOOLCHAIN='local')
VERIF = os.path.dirname(os.path.dirname(os.path.abspath(__file__)))
REPO = os.environ.get('VERIF_REPO', '/repo')      # a snapshot of the repository (vp run --with-repo) can stand in for /repo
SEEDED = os.path.join(VERIF, 'seeded')

def sh(cmd, cwd=None, timeout=3600):
    p = subprocess.run(cmd, shell=True, cwd=cwd, env=ENV, capture_output=True, text=True, timeout=timeout)
    return p.returncode, p.stdout + p.stderr

def confirm(src, pid, x):
    readme = open(os.path.join(src, 'README.md')).read()
    m = re.search(r'(go/[\w/\-.]*_test\.go)', readme)
    dest = m.group(1)
    m = re.search(r"(?<!\w)-run[ =]+['\"]?([^\s'\"]+)", readme)
    run = m.group(1)
    wt = tempfile.mkdtemp(prefix='seedwt-', dir=os.environ.get('TMPDIR', '/tmp'))
    os.rmdir(wt)
    rc, out = sh(f'git -C /repo worktree add --detach {wt} HEAD')
    assert rc == 0, out
    res = {}
    try:
        rc, out = sh(f'git apply {src}/patch.diff', cwd=wt); res['applies'] = rc == 0
        rc, out = sh('git diff --stat', cwd=wt); res['diffstat'] = out.strip().splitlines()
        rc, out = sh('git status --short', cwd=wt); res['touches_tests'] = any('_test.go' in l for l in out.splitlines())
        rc, out = sh('cd go && go build ./...', cwd=wt); res['builds'] = rc == 0
        rc, out = sh('go test -vet=off -count=1 ./...', cwd=wt); res['suite_passes'] = rc == 0 and 'FAIL' not in out
        if not res['suite_passes']: res['suite_out'] = out[-1500:]
        shutil.copy(os.path.join(src, 'demo_test.go'), os.path.join(wt, dest))
        pkg = './' + os.path.dirname(dest) + '/'
        rc, out = sh(f"go test -vet=off -count=1 -run '{run}' {pkg}", cwd=wt); res['demo_fails_on_changed'] = rc != 0
        res['demo_changed_tail'] = out[-800:]
        rc, out = sh(f'git apply -R {src}/patch.diff', cwd=wt); assert rc == 0, out
        rc, out = sh(f"go test -vet=off -count=1 -run '{run}' {pkg}", cwd=wt); res['demo_passes_on_clean'] = rc == 0 and 'no tests to run' not in out
        if not res['demo_passes_on_clean']: res['demo_clean_tail'] = out[-800:]
    finally:
        sh(f'git -C /repo worktree remove --force {wt}')
    ok = all(res.get(k) for k in ('applies', 'builds', 'suite_passes', 'demo_fails_on_changed', 'demo_passes_on_clean')) and not res['touches_tests']
    res['confirmed'] = ok
    d = os.path.join(SEEDED, f'{pid}-{x}')
    if ok:
        os.makedirs(d, exist_ok=True)
        for f in ('patch.diff', 'demo_test.go', 'README.md'):
            shutil.copy(os.path.join(src, f), os.path.join(d, f))
        meta = dict(property_id=pid, variant=x, origin='fresh sub-agent given only the property text and a scratch worktree', demo_dest=dest, demo_run=run,
                    demo_cmd=f"cp demo_test.go <tree>/{dest} && cd <tree> && go test -vet=off -count=1 -run '{run}' {pkg}",
                    confirmation={k: v for k, v in res.items() if k not in ('demo_changed_tail',)}, detection={})
        json.dump(meta, open(os.path.join(d, 'meta.json'), 'w'), indent=1)
    print(json.dumps({k: v for k, v in res.items() if k != 'demo_changed_tail'}, indent=1))
    return ok

def detect(name, tier, checks):
    d = os.path.join(SEEDED, name)
    meta = json.load(open(os.path.join(d, 'meta.json')))
    rc, out = sh(f'git -C {REPO} status --short')
    assert out.strip() == '', f'{REPO} not clean: ' + out
    rc, out = sh(f'git -C {REPO} apply {d}/patch.diff'); assert rc == 0, out
    results = {}
    try:
        for c in checks:
            t0 = time.time()
            rc, out = sh(f'./check.py {c} --tier {tier}', cwd=VERIF, timeout=7200)
            viol = [l for l in out.splitlines() if l.startswith('VIOLATION')]
            results[c] = dict(exit=rc, violation_lines=viol[:5], wall_s=round(time.time() - t0, 1), detected=(rc == 1 and bool(viol)))
            if rc not in (0, 1): results[c]['tail'] = out[-600:]
            # keep the first replay as illustration
            for l in viol[:1]:
                m = re.search(r'replay=(\S+)', l)
                if m and os.path.exists(m.group(1)):
                    shutil.copy(m.group(1), os.path.join(d, f'replay-{c}-{tier}.txt'))
    finally:
        rc, out = sh(f'git -C {REPO} checkout -- . && git -C {REPO} status --short')
        assert out.strip() == '', out
        # a run against a patched tree rewrites evidence/<id>.json with the violation it found: put the committed file back, evidence
        # must only ever come from runs on the unchanged tree
        sh('git checkout -- ' + ' '.join(f'evidence/{c}.json' for c in checks), cwd=VERIF)
    meta['detection'].setdefault(tier, {}).update(results)
    json.dump(meta, open(os.path.join(d, 'meta.json'), 'w'), indent=1)
    print(name, tier, json.dumps({c: (r['detected'], r['exit'], r['violation_lines'][:1]) for c, r in results.items()}))

if __name__ == '__main__':
    if sys.argv[1] == 'confirm':
        sys.exit(0 if confirm(sys.argv[2], sys.argv[3], sys.argv[4]) else 1)
    else:
        name = sys.argv[2]
        tier = sys.argv[sys.argv.index('--tier') + 1] if '--tier' in sys.argv else 'quick'
        checks = sys.argv[sys.argv.index('--checks') + 1].split(',') if '--checks' in sys.argv else [name.split('-')[0]]
        detect(name, tier, checks)
