// xlate: a deliberately small Go -> Lean 4 translator for the pure scalar / dispatch functions of /repo.
// `go run main.go <repo root> > Funcs.lean`.  For a fixed whitelist of (file, function) it translates the FuncDecl
// body into a Lean `def`; FuncsTie.lean then proves, for ALL inputs, that each generated def equals the hand-written
// model definition, so an edit of such a Go function changes the regenerated text and breaks a theorem.
// The tool REFUSES (stderr message naming the function and the construct, exit status 3) on anything outside the
// fragment documented in NOTES.md -- it never guesses.  Standard library only (go/ast, go/parser, go/token, go/constant).
package main

import (
	"fmt"
	"go/ast"
	"go/constant"
	"go/parser"
	"go/token"
	"os"
	"path/filepath"
	"strconv"
	"strings"
)

// ---- whitelist ------------------------------------------------------------------------------------------------------

type fileSpec struct {
	path  string
	funcs []string
}
type pkgSpec struct {
	tag   string // Lean sub-namespace
	files []fileSpec
}

var whitelist = []pkgSpec{
	{"sh", []fileSpec{{"go/signedexchange/structuredheader/parser.go",
		[]string{"isDigit", "isLCAlpha", "isAlpha", "isKeyChar", "isTokenChar"}}}},
	{"cbor", []fileSpec{
		{"go/internal/cbor/types.go", []string{"getMajorType"}},
		{"go/internal/cbor/addinfo.go", []string{"convertToAdditionalInfo", "getAdditionalInfoDirectValue",
			"getAdditionalInfoLength", "getAdditionalInfoValueLowerLimit"}}}},
	{"mice", []fileSpec{{"go/signedexchange/mice/mice.go",
		[]string{"ContentEncoding", "DigestHeaderName", "IntegrityIdentifier", "base64Encoding"}}}},
	{"sxgver", []fileSpec{{"go/signedexchange/version/version.go", []string{"HeaderMagicBytes", "MiceEncoding"}}}},
	{"bundlever", []fileSpec{{"go/bundle/version/version.go",
		[]string{"HeaderMagicBytes", "SignatureContextString", "HasPrimaryURLFieldInHeader", "SupportsVariants",
			"SupportsSignatures", "SupportsManifestSection", "MiceEncoding"}}}},
}

// import paths whose exported constants may be named by a selector; value = tag of the (earlier) whitelist package
var importTags = map[string]string{"github.com/WICG/webpackage/go/signedexchange/mice": "mice"}

// package-level variables of encoding/base64; a selector base64.X is translated to the bytes of the name X
var base64Vars = map[string]bool{"StdEncoding": true, "URLEncoding": true, "RawStdEncoding": true, "RawURLEncoding": true}

// hand-written Lean appended to a package (derived views asked for by the task)
var extras = map[string]string{"mice": "/-- derived: the arm of `base64Encoding` that returns base64.RawURLEncoding -/\n" +
	"def usesRawURLBase64 (enc : Bytes) : Bool := base64Encoding enc == some " + leanBytes("RawURLEncoding") + "\n"}

var leanReserved = map[string]bool{"at": true, "by": true, "do": true, "end": true, "from": true, "fun": true,
	"have": true, "in": true, "let": true, "match": true, "open": true, "show": true, "then": true, "with": true,
	"where": true, "def": true, "theorem": true, "Type": true, "Prop": true, "Sort": true, "if": true, "else": true,
	"some": true, "none": true, "true": true, "false": true, "decide": true, "tag": true}

// ---- types ----------------------------------------------------------------------------------------------------------

type kind int

const (
	kBool  kind = iota // Lean Bool
	kByte              // Lean UInt8
	kNat               // Lean Nat   (Go int / uint64 / rune and int-based enums, non-negative values only)
	kBytes             // Lean Bytes (Go string, []byte, string-based named types, *base64.Encoding by name)
)

var leanType = map[kind]string{kBool: "Bool", kByte: "UInt8", kNat: "Nat", kBytes: "Bytes"}

type gtype struct {
	name string // Go spelling, package-qualified for named types ("cbor.Type"); identity of Go types
	k    kind
	bits int // kNat only: values are modelled in [0, 2^bits)
}

var basic = map[string]*gtype{"bool": {"bool", kBool, 0}, "byte": {"byte", kByte, 0}, "int": {"int", kNat, 63},
	"uint64": {"uint64", kNat, 64}, "rune": {"rune", kNat, 31}, "string": {"string", kBytes, 0}}
var byteSlice = &gtype{"[]byte", kBytes, 0}
var b64Type = &gtype{"*base64.Encoding", kBytes, 0}

type constant_ struct {
	typ *gtype // nil = untyped
	val constant.Value
}
type fn struct {
	decl     *ast.FuncDecl
	file     string
	params   []string
	ptypes   []*gtype
	result   *gtype
	canPanic bool
	imports  map[string]string // imports of the declaring file
	state    int               // 0 new, 1 visiting, 2 emitted
}
type pkg struct {
	tag     string
	imports map[string]string // local import name -> path (of the file being translated)
	types   map[string]*gtype
	consts  map[string]*constant_
	vars    map[string]bool // package-level []byte variables
	decls   map[string][]*ast.FuncDecl
	funcs   map[string]*fn // whitelisted
	out     strings.Builder
}

var fset = token.NewFileSet()
var pkgs = map[string]*pkg{}
var current = "(setup)"

func refuse(n ast.Node, format string, a ...interface{}) {
	where := ""
	if n != nil {
		p := fset.Position(n.Pos())
		where = fmt.Sprintf(" at %s:%d", filepath.Base(p.Filename), p.Line)
	}
	fmt.Fprintf(os.Stderr, "xlate: REFUSED %s%s: %s\n", current, where, fmt.Sprintf(format, a...))
	os.Exit(3)
}

func leanBytes(s string) string {
	p := make([]string, len(s))
	for i := 0; i < len(s); i++ {
		p[i] = strconv.Itoa(int(s[i]))
	}
	out := "[" + strings.Join(p, ", ") + "]"
	if q := strconv.Quote(s); !strings.Contains(q, "-/") && !strings.Contains(q, "/-") {
		out = "(" + out + " /- " + q + " -/)"
	}
	return out
}

func (p *pkg) resolveType(e ast.Expr) *gtype {
	t := p.lookupType(e)
	if t == nil {
		refuse(e, "unsupported type %T", e)
	}
	return t
}

func (p *pkg) lookupType(e ast.Expr) *gtype {
	switch x := e.(type) {
	case *ast.Ident:
		if t, ok := p.types[x.Name]; ok {
			return t
		}
		if t, ok := basic[x.Name]; ok {
			return t
		}
	case *ast.ArrayType:
		if id, ok := x.Elt.(*ast.Ident); ok && x.Len == nil && id.Name == "byte" {
			return byteSlice
		}
	case *ast.SelectorExpr:
		if q := p.imported(x.X); q != nil {
			if t, ok := q.types[x.Sel.Name]; ok {
				return t
			}
		}
	case *ast.StarExpr:
		if s, ok := x.X.(*ast.SelectorExpr); ok && p.importPath(s.X) == "encoding/base64" && s.Sel.Name == "Encoding" {
			return b64Type
		}
	}
	return nil
}

func (p *pkg) importPath(e ast.Expr) string {
	if id, ok := e.(*ast.Ident); ok && id.Obj == nil { // Obj == nil: not a local/package-level object of this file
		return p.imports[id.Name]
	}
	return ""
}

func (p *pkg) imported(e ast.Expr) *pkg {
	if tag, ok := importTags[p.importPath(e)]; ok {
		return pkgs[tag]
	}
	return nil
}

// ---- package-level declarations ---------------------------------------------------------------------------------------

// evalConst evaluates a constant expression of a const block; ok=false when it is outside the fragment
func (p *pkg) evalConst(e ast.Expr, iota int) (c constant_, ok bool) {
	switch x := e.(type) {
	case *ast.BasicLit:
		if x.Kind == token.INT || x.Kind == token.CHAR || x.Kind == token.STRING {
			return constant_{nil, constant.MakeFromLiteral(x.Value, x.Kind, 0)}, true
		}
	case *ast.ParenExpr:
		return p.evalConst(x.X, iota)
	case *ast.Ident:
		if x.Name == "iota" && iota >= 0 {
			return constant_{nil, constant.MakeInt64(int64(iota))}, true
		}
		if c, ok := p.consts[x.Name]; ok {
			return *c, true
		}
	case *ast.BinaryExpr:
		l, ok1 := p.evalConst(x.X, iota)
		r, ok2 := p.evalConst(x.Y, iota)
		if ok1 && ok2 {
			if v, ok := foldConst(x.Op, l.val, r.val); ok {
				t := l.typ
				if t == nil && x.Op != token.SHL && x.Op != token.SHR {
					t = r.typ
				}
				return constant_{t, v}, true
			}
		}
	}
	return constant_{}, false
}

func foldConst(op token.Token, l, r constant.Value) (constant.Value, bool) {
	if l.Kind() != constant.Int || r.Kind() != constant.Int {
		return nil, false
	}
	switch op {
	case token.SHL, token.SHR:
		if n, ok := constant.Uint64Val(r); ok && n < 64 {
			return constant.Shift(l, op, uint(n)), true
		}
	case token.ADD, token.SUB, token.MUL, token.AND, token.OR, token.XOR:
		return constant.BinaryOp(l, op, r), true
	}
	return nil, false
}

// fits reports whether constant v is representable in the Lean modelling of type t
func fits(v constant.Value, t *gtype) bool {
	switch t.k {
	case kByte, kNat:
		bits := uint(8)
		if t.k == kNat {
			bits = uint(t.bits)
		}
		return v.Kind() == constant.Int && constant.Sign(v) >= 0 &&
			constant.Compare(v, token.LSS, constant.Shift(constant.MakeInt64(1), token.SHL, bits))
	case kBytes:
		return v.Kind() == constant.String && t != b64Type
	}
	return false
}

func renderConst(v constant.Value, k kind) string {
	if k == kBytes {
		return leanBytes(constant.StringVal(v))
	}
	return v.ExactString()
}

func (p *pkg) byteList(elts []ast.Expr) (string, bool) {
	bs := make([]string, len(elts))
	for i, e := range elts {
		c, ok := p.evalConst(e, -1)
		if !ok || !fits(c.val, basic["byte"]) {
			return "", false
		}
		bs[i] = c.val.ExactString()
	}
	return "[" + strings.Join(bs, ", ") + "]", true
}

func (p *pkg) loadFile(repo string, fs fileSpec) {
	current = fs.path
	f, err := parser.ParseFile(fset, filepath.Join(repo, fs.path), nil, 0)
	if err != nil {
		refuse(nil, "cannot parse: %v", err)
	}
	p.imports = map[string]string{}
	for _, im := range f.Imports {
		path, _ := strconv.Unquote(im.Path.Value)
		name := path[strings.LastIndex(path, "/")+1:]
		if im.Name != nil {
			name = im.Name.Name
		}
		p.imports[name] = path
	}
	// named types first (Go allows use before declaration)
	for _, d := range f.Decls {
		if gd, ok := d.(*ast.GenDecl); ok && gd.Tok == token.TYPE {
			for _, s := range gd.Specs {
				ts := s.(*ast.TypeSpec)
				if id, ok := ts.Type.(*ast.Ident); ok && ts.TypeParams == nil && !ts.Assign.IsValid() {
					if u, ok := basic[id.Name]; ok && (id.Name == "int" || id.Name == "byte" || id.Name == "string") {
						p.types[ts.Name.Name] = &gtype{p.tag + "." + ts.Name.Name, u.k, u.bits}
					}
				}
			}
		}
	}
	skip := func(n ast.Node, name, why string) {
		fmt.Fprintf(&p.out, "-- not translated (%s:%d): %s (%s)\n", fs.path, fset.Position(n.Pos()).Line, name, why)
	}
	for _, d := range f.Decls {
		switch x := d.(type) {
		case *ast.FuncDecl:
			p.decls[x.Name.Name] = append(p.decls[x.Name.Name], x)
		case *ast.GenDecl:
			var prev *ast.ValueSpec
			for i, s := range x.Specs {
				vs, ok := s.(*ast.ValueSpec)
				if !ok {
					continue
				}
				line := fset.Position(vs.Pos()).Line
				if x.Tok == token.VAR {
					var lit *ast.CompositeLit
					if len(vs.Names) == 1 && len(vs.Values) == 1 {
						lit, _ = vs.Values[0].(*ast.CompositeLit)
					}
					list, ok := "", false
					if lit != nil && lit.Type != nil && p.lookupType(lit.Type) == byteSlice &&
						(vs.Type == nil || p.lookupType(vs.Type) == byteSlice) {
						list, ok = p.byteList(lit.Elts)
					}
					if !ok {
						skip(vs, "var "+vs.Names[0].Name, "not a single []byte{byte constants...} literal")
						continue
					}
					p.vars[vs.Names[0].Name] = true
					fmt.Fprintf(&p.out, "/-- %s:%d `var %s = []byte{...}` -/\ndef %s : Bytes := %s\n", fs.path, line,
						vs.Names[0].Name, vs.Names[0].Name, list)
					continue
				}
				// const spec; an empty spec repeats the previous one (with the new iota)
				eff := vs
				if vs.Type == nil && len(vs.Values) == 0 && prev != nil {
					eff = prev
				} else {
					prev = vs
				}
				for j, name := range vs.Names {
					if j >= len(eff.Values) {
						skip(vs, "const "+name.Name, "no value")
						continue
					}
					c, ok := p.evalConst(eff.Values[j], i)
					if ok && eff.Type != nil {
						c.typ = p.lookupType(eff.Type)
						ok = c.typ != nil
					}
					t := c.typ
					if ok && t == nil { // untyped: integer -> Nat, string -> Bytes
						t = map[constant.Kind]*gtype{constant.Int: basic["uint64"], constant.String: basic["string"]}[c.val.Kind()]
					}
					if !ok || t == nil || !fits(c.val, t) || leanReserved[name.Name] {
						skip(vs, "const "+name.Name, "not a non-negative integer / string constant of the fragment")
						continue
					}
					cc := c
					p.consts[name.Name] = &cc
					note := ""
					if c.typ == nil {
						note = "   -- untyped Go constant"
					} else {
						note = "   -- Go type " + c.typ.name
					}
					fmt.Fprintf(&p.out, "/-- %s:%d `const %s` -/\ndef %s : %s := %s%s\n", fs.path, line, name.Name,
						name.Name, leanType[t.k], renderConst(c.val, t.k), note)
				}
			}
		}
	}
	// signatures of the whitelisted functions of this file
	for _, name := range fs.funcs {
		current = fs.path + " " + name
		var found []*ast.FuncDecl
		for _, d := range p.decls[name] {
			if fset.Position(d.Pos()).Filename == filepath.Join(repo, fs.path) {
				found = append(found, d)
			}
		}
		if len(found) != 1 {
			refuse(nil, "whitelisted function found %d times", len(found))
		}
		d := found[0]
		if leanReserved[name] || p.funcs[name] != nil || p.consts[name] != nil || p.vars[name] {
			refuse(d, "name clash for %s", name)
		}
		if d.Body == nil || d.Type.TypeParams != nil {
			refuse(d, "no body / generic function")
		}
		f := &fn{decl: d, file: fs.path, imports: p.imports}
		fields := []*ast.Field{}
		if d.Recv != nil {
			fields = append(fields, d.Recv.List...)
		}
		fields = append(fields, d.Type.Params.List...)
		for _, fl := range fields {
			t := p.resolveType(fl.Type)
			if fl.Type == nil || t == byteSlice || t == b64Type || t.k == kBool || t.name == "string" {
				refuse(fl, "unsupported parameter type %s", t.name)
			}
			if len(fl.Names) == 0 {
				refuse(fl, "unnamed parameter")
			}
			for _, n := range fl.Names {
				if leanReserved[n.Name] || n.Name == "_" {
					refuse(fl, "unsupported parameter name %s", n.Name)
				}
				f.params = append(f.params, n.Name)
				f.ptypes = append(f.ptypes, t)
			}
		}
		if d.Type.Results == nil || len(d.Type.Results.List) != 1 || len(d.Type.Results.List[0].Names) != 0 {
			refuse(d, "exactly one unnamed result is required")
		}
		f.result = p.resolveType(d.Type.Results.List[0].Type)
		ast.Inspect(d.Body, func(n ast.Node) bool {
			if c, ok := n.(*ast.CallExpr); ok {
				if id, ok := c.Fun.(*ast.Ident); ok && id.Name == "panic" {
					f.canPanic = true
				}
			}
			return true
		})
		p.funcs[name] = f
	}
}

// ---- expressions ------------------------------------------------------------------------------------------------------

type val struct {
	lean string
	typ  *gtype         // nil = untyped constant
	cv   constant.Value // non-nil = constant (lean is then its symbolic name, or "")
}

type tr struct {
	p      *pkg
	params map[string]*gtype
}

// str renders v as a Lean term
func (v val) str(n ast.Node) string {
	if v.cv == nil || v.lean != "" {
		return v.lean
	}
	if v.typ == nil {
		refuse(n, "constant without a type context")
	}
	return renderConst(v.cv, v.typ.k)
}

// as gives an untyped constant the type t (Go's implicit conversion of untyped constants)
func (v val) as(n ast.Node, t *gtype) val {
	if v.typ == nil {
		if !fits(v.cv, t) {
			refuse(n, "constant %s not representable as %s in the model", v.cv.ExactString(), t.name)
		}
		v.typ = t
	}
	return v
}

func (t *tr) expr(e ast.Expr) val {
	p := t.p
	switch x := e.(type) {
	case *ast.BasicLit:
		if c, ok := p.evalConst(x, -1); ok {
			return val{"", nil, c.val}
		}
	case *ast.ParenExpr:
		return t.expr(x.X) // every compound term is emitted fully parenthesised already
	case *ast.Ident:
		if ty, ok := t.params[x.Name]; ok {
			return val{x.Name, ty, nil}
		}
		if x.Name == "true" || x.Name == "false" {
			return val{x.Name, basic["bool"], nil}
		}
		if c, ok := p.consts[x.Name]; ok {
			if c.typ == nil { // untyped constants are inlined: they take the type of their context
				return val{"", nil, c.val}
			}
			return val{x.Name, c.typ, c.val}
		}
		if p.vars[x.Name] {
			return val{x.Name, byteSlice, nil}
		}
		refuse(x, "identifier %s is not a parameter, supported constant or []byte variable", x.Name)
	case *ast.SelectorExpr:
		if q := p.imported(x.X); q != nil {
			if c, ok := q.consts[x.Sel.Name]; ok && c.typ != nil && ast.IsExported(x.Sel.Name) {
				return val{q.tag + "." + x.Sel.Name, c.typ, c.val}
			}
		}
		if p.importPath(x.X) == "encoding/base64" && base64Vars[x.Sel.Name] {
			return val{leanBytes(x.Sel.Name), b64Type, nil}
		}
		refuse(x, "unsupported selector .%s", x.Sel.Name)
	case *ast.UnaryExpr:
		if v := t.expr(x.X); x.Op == token.NOT && v.typ != nil && v.typ.k == kBool {
			return val{"(!" + v.lean + ")", v.typ, nil}
		}
		refuse(x, "unsupported unary operator %s", x.Op)
	case *ast.BinaryExpr:
		return t.binary(x)
	case *ast.CompositeLit:
		if x.Type != nil && p.lookupType(x.Type) == byteSlice {
			if list, ok := p.byteList(x.Elts); ok {
				return val{list, byteSlice, nil}
			}
		}
		refuse(x, "unsupported composite literal")
	case *ast.CallExpr:
		return t.call(x)
	}
	refuse(e, "unsupported expression %T", e)
	return val{}
}

func (t *tr) binary(x *ast.BinaryExpr) val {
	l, r := t.expr(x.X), t.expr(x.Y)
	if l.cv != nil && r.cv != nil { // constant folding (also the only place where int arithmetic is allowed)
		v, ok := foldConst(x.Op, l.cv, r.cv)
		if !ok {
			refuse(x, "unsupported constant expression with operator %s", x.Op)
		}
		ty := l.typ
		if ty == nil && x.Op != token.SHL && x.Op != token.SHR {
			ty = r.typ
		}
		if ty != nil && !fits(v, ty) {
			refuse(x, "constant expression overflows %s", ty.name)
		}
		return val{"", ty, v}
	}
	bool_ := basic["bool"]
	if x.Op == token.SHL || x.Op == token.SHR {
		// Lean's UInt8 shifts reduce the count mod 8, Go's do not: only constant counts 0..7 are accepted
		n, exact := uint64(99), false
		if r.cv != nil {
			n, exact = constant.Uint64Val(r.cv)
		}
		if l.typ == nil || l.typ.k != kByte || !exact || n > 7 {
			refuse(x, "shift is supported only on byte values with a constant count 0..7 (or between constants)")
		}
		return val{fmt.Sprintf("(%s %s %d)", l.lean, map[token.Token]string{token.SHL: "<<<", token.SHR: ">>>"}[x.Op], n), l.typ, nil}
	}
	// Go's typing rule: an untyped constant operand takes the type of the other operand
	if l.typ == nil {
		l = l.as(x.X, r.typ)
	}
	if r.typ == nil {
		r = r.as(x.Y, l.typ)
	}
	if l.typ.name != r.typ.name {
		refuse(x, "operands of different types %s and %s", l.typ.name, r.typ.name)
	}
	k, ls, rs := l.typ.k, l.str(x.X), r.str(x.Y)
	switch x.Op {
	case token.LAND, token.LOR:
		if k == kBool {
			return val{fmt.Sprintf("(%s %s %s)", ls, x.Op, rs), bool_, nil}
		}
	case token.EQL, token.NEQ:
		if l.typ != b64Type {
			return val{fmt.Sprintf("(%s %s %s)", ls, x.Op, rs), bool_, nil}
		}
	case token.LSS, token.LEQ, token.GTR, token.GEQ:
		if k == kByte || k == kNat {
			op := map[token.Token]string{token.LSS: "<", token.LEQ: "≤", token.GTR: ">", token.GEQ: "≥"}[x.Op]
			return val{fmt.Sprintf("(decide (%s %s %s))", ls, op, rs), bool_, nil}
		}
	case token.AND, token.OR, token.XOR:
		if k == kByte {
			op := map[token.Token]string{token.AND: "&&&", token.OR: "|||", token.XOR: "^^^"}[x.Op]
			return val{fmt.Sprintf("(%s %s %s)", ls, op, rs), l.typ, nil}
		}
	case token.ADD, token.SUB, token.MUL:
		if k == kByte { // wraps modulo 256 in Go and in Lean
			return val{fmt.Sprintf("(%s %s %s)", ls, x.Op, rs), l.typ, nil}
		}
	}
	refuse(x, "operator %s is not supported on %s (int/uint64 are modelled as Nat: literals and comparisons only)", x.Op, l.typ.name)
	return val{}
}

// convert models the Go conversion T(v)
func convert(n ast.Node, to *gtype, v val) val {
	if v.cv != nil && v.typ == nil {
		return val{"", to, v.as(n, to).cv}
	}
	from := v.typ
	switch {
	case from == b64Type || to == b64Type || from.k == kBool || to.k == kBool:
	case from.k == to.k && (to.k != kNat || from.bits <= to.bits): // same Lean representation, no narrowing
		if v.cv != nil {
			return val{"", to, v.cv}
		}
		return val{v.lean, to, nil}
	case from.k == kByte && to.k == kNat:
		return val{"(UInt8.toNat " + v.str(n) + ")", to, nil}
	case from.k == kNat && to.k == kByte: // truncation modulo 256
		return val{"(UInt8.ofNat " + v.str(n) + ")", to, nil}
	}
	refuse(n, "unsupported conversion %s -> %s", from.name, to.name)
	return val{}
}

func (t *tr) call(x *ast.CallExpr) val {
	p := t.p
	args := func(f *fn, recv []ast.Expr) string {
		all := append(recv, x.Args...)
		if len(all) != len(f.params) || x.Ellipsis.IsValid() {
			refuse(x, "wrong number of arguments")
		}
		if f.canPanic {
			refuse(x, "call of a function that can panic")
		}
		s := ""
		for i, a := range all {
			v := t.expr(a)
			if v.typ == nil {
				v = v.as(a, f.ptypes[i])
			}
			if v.typ.name != f.ptypes[i].name {
				refuse(a, "argument type %s, parameter type %s", v.typ.name, f.ptypes[i].name)
			}
			s += " " + v.str(a)
		}
		return s
	}
	switch f := x.Fun.(type) {
	case *ast.ArrayType:
		if len(x.Args) == 1 && !x.Ellipsis.IsValid() && p.lookupType(f) == byteSlice {
			return convert(x, byteSlice, t.expr(x.Args[0]))
		}
	case *ast.Ident:
		if _, shadow := t.params[f.Name]; shadow {
			refuse(x, "call through parameter %s", f.Name)
		}
		if f.Name == "append" && p.funcs["append"] == nil {
			if len(x.Args) == 2 && x.Ellipsis.IsValid() {
				a, b := t.expr(x.Args[0]), t.expr(x.Args[1])
				if a.typ == byteSlice && b.typ == byteSlice {
					return val{"(" + a.lean + " ++ " + b.lean + ")", byteSlice, nil}
				}
			}
			refuse(x, "append is supported only as append(a, b...) on two []byte values")
		}
		if g, ok := p.funcs[f.Name]; ok && g.decl.Recv == nil {
			return val{"(" + f.Name + args(g, nil) + ")", g.result, nil}
		}
		_, isBasic := basic[f.Name]
		_, isNamed := p.types[f.Name]
		if (isBasic || isNamed) && len(x.Args) == 1 && !x.Ellipsis.IsValid() {
			return convert(x, p.resolveType(f), t.expr(x.Args[0]))
		}
		refuse(x, "call of %s (not a whitelisted function of the package or a supported conversion)", f.Name)
	case *ast.SelectorExpr:
		if g, ok := p.funcs[f.Sel.Name]; ok && g.decl.Recv != nil && p.importPath(f.X) == "" {
			return val{"(" + f.Sel.Name + args(g, []ast.Expr{f.X}) + ")", g.result, nil}
		}
		refuse(x, "call of .%s (not a whitelisted method of the package)", f.Sel.Name)
	}
	refuse(x, "unsupported call")
	return val{}
}

// ---- statements -------------------------------------------------------------------------------------------------------

func isPanic(s ast.Stmt) bool {
	if es, ok := s.(*ast.ExprStmt); ok {
		if c, ok := es.X.(*ast.CallExpr); ok {
			id, ok := c.Fun.(*ast.Ident)
			return ok && id.Name == "panic" && id.Obj == nil
		}
	}
	return false
}

// block translates a statement list that must end every path with return or panic
func (t *tr) block(f *fn, owner ast.Node, list []ast.Stmt, ind string) string {
	if len(list) == 0 {
		refuse(owner, "control reaches the end of a block without return/panic")
	}
	s, rest := list[0], list[1:]
	terminal := func() {
		if len(rest) != 0 {
			refuse(rest[0], "statements after return/panic/exhaustive switch")
		}
	}
	switch x := s.(type) {
	case *ast.ReturnStmt:
		terminal()
		if len(x.Results) != 1 {
			refuse(x, "return with %d values", len(x.Results))
		}
		v := t.expr(x.Results[0])
		if v.typ == nil {
			v = v.as(x, f.result)
		}
		if v.typ.name != f.result.name {
			refuse(x, "returned type %s, result type %s", v.typ.name, f.result.name)
		}
		if f.canPanic {
			return ind + "some " + v.str(x) + "\n"
		}
		return ind + v.str(x) + "\n"
	case *ast.ExprStmt:
		if isPanic(x) { // the panic value (message) is not modelled
			terminal()
			return ind + "none\n"
		}
	case *ast.IfStmt:
		if x.Init != nil || x.Else != nil {
			refuse(x, "if with init statement or else branch")
		}
		c := t.expr(x.Cond)
		if c.typ == nil || c.typ.k != kBool {
			refuse(x, "non-boolean condition")
		}
		return ind + "if " + c.lean + " then\n" + t.block(f, x, x.Body.List, ind+"  ") + ind + "else\n" + t.block(f, x, rest, ind+"  ")
	case *ast.SwitchStmt:
		if x.Init != nil || x.Tag == nil {
			refuse(x, "switch with init statement or without tag")
		}
		tag := t.expr(x.Tag)
		if tag.typ == nil || tag.typ.k == kBool || tag.typ == b64Type {
			refuse(x, "unsupported switch tag")
		}
		out, name := "", tag.lean
		if _, isParam := t.params[name]; !isParam {
			name = "tag"
			out = fmt.Sprintf("%slet tag : %s := %s\n", ind, leanType[tag.typ.k], tag.str(x))
		}
		var deflt *ast.CaseClause
		first := true
		for _, cs := range x.Body.List {
			cc := cs.(*ast.CaseClause)
			if cc.List == nil {
				deflt = cc
				continue
			}
			conds := []string{}
			for _, ce := range cc.List {
				v := t.expr(ce)
				if v.cv == nil {
					refuse(ce, "case expression is not a constant")
				}
				if v = v.as(ce, tag.typ); v.typ.name != tag.typ.name {
					refuse(ce, "case type %s, tag type %s", v.typ.name, tag.typ.name)
				}
				conds = append(conds, name+" == "+v.str(ce))
			}
			kw := "else if "
			if first {
				kw, first = "if ", false
			}
			out += ind + kw + strings.Join(conds, " || ") + " then\n" + t.block(f, cc, cc.Body, ind+"  ")
		}
		if first {
			refuse(x, "switch without case clauses")
		}
		if deflt != nil { // Go evaluates default last wherever it is written
			terminal()
			return out + ind + "else\n" + t.block(f, deflt, deflt.Body, ind+"  ")
		}
		return out + ind + "else\n" + t.block(f, x, rest, ind+"  ")
	}
	refuse(s, "unsupported statement %T", s)
	return ""
}

func (p *pkg) emit(name string) {
	f := p.funcs[name]
	if f.state == 2 {
		return
	}
	current, p.imports = f.file+" "+name, f.imports
	if f.state == 1 {
		refuse(f.decl, "recursive function")
	}
	f.state = 1
	// callees first (Lean needs definition before use)
	ast.Inspect(f.decl.Body, func(n ast.Node) bool {
		if c, ok := n.(*ast.CallExpr); ok {
			callee := ""
			switch g := c.Fun.(type) {
			case *ast.Ident:
				callee = g.Name
			case *ast.SelectorExpr:
				callee = g.Sel.Name
			}
			if _, ok := p.funcs[callee]; ok {
				p.emit(callee)
				current, p.imports = f.file+" "+name, f.imports
			}
		}
		return true
	})
	t := &tr{p, map[string]*gtype{}}
	sig, usesNat := "", f.result.k == kNat
	for i, pn := range f.params {
		if _, dup := t.params[pn]; dup {
			refuse(f.decl, "duplicate parameter %s", pn)
		}
		t.params[pn] = f.ptypes[i]
		sig += fmt.Sprintf(" (%s : %s)", pn, leanType[f.ptypes[i].k])
		usesNat = usesNat || f.ptypes[i].k == kNat
	}
	res := leanType[f.result.k]
	if f.canPanic {
		res = "Option " + res
	}
	body := t.block(f, f.decl, f.decl.Body.List, "  ")
	goSig, ps, first := "func ", []string{}, 0
	if f.decl.Recv != nil {
		goSig, first = "func ("+f.params[0]+" "+f.ptypes[0].name+") ", 1
	}
	for i := first; i < len(f.params); i++ {
		ps = append(ps, f.params[i]+" "+f.ptypes[i].name)
	}
	fmt.Fprintf(&p.out, "/-- %s:%d `%s%s(%s) %s`", f.file, fset.Position(f.decl.Pos()).Line, goSig, name,
		strings.Join(ps, ", "), f.result.name)
	if f.canPanic {
		p.out.WriteString("; `none` = panic")
	}
	if usesNat {
		p.out.WriteString(";\n    int/uint64/enum values are modelled as Nat: the body uses only non-negative literals and comparisons on them")
	}
	fmt.Fprintf(&p.out, " -/\ndef %s%s : %s :=\n%s", name, sig, res, body)
	f.state = 2
}

func main() {
	if len(os.Args) != 3 {
		fmt.Fprintln(os.Stderr, "usage: go run main.go <repo root> <package tag: sh|cbor|mice|sxgver|bundlever>")
		os.Exit(2)
	}
	want := os.Args[2]
	deps := map[string][]string{"sxgver": {"mice"}, "bundlever": {"mice"}}
	need := map[string]bool{want: true}
	for _, d := range deps[want] {
		need[d] = true
	}
	files := []string{}
	found := false
	for _, ps := range whitelist {
		if !need[ps.tag] {
			continue
		}
		found = found || ps.tag == want
		p := &pkg{tag: ps.tag, types: map[string]*gtype{}, consts: map[string]*constant_{}, vars: map[string]bool{},
			decls: map[string][]*ast.FuncDecl{}, funcs: map[string]*fn{}}
		pkgs[ps.tag] = p
		for _, fs := range ps.files {
			if ps.tag == want {
				files = append(files, fs.path)
			}
			p.loadFile(os.Args[1], fs)
		}
		for _, fs := range ps.files {
			for _, name := range fs.funcs {
				p.emit(name)
			}
		}
		p.out.WriteString(extras[ps.tag])
	}
	if !found {
		fmt.Fprintln(os.Stderr, "xlate: unknown package tag "+want)
		os.Exit(2)
	}
	// one Lean module per Go package (WebPkg.Gen.Funcs<Tag>), so that a function leaving the supported fragment only takes
	// down the ties of its own package (and of the packages that name its constants)
	fmt.Printf("-- GENERATED by tools/xlate from %s — do not edit\n", strings.Join(files, ", "))
	fmt.Println("import WebPkg.Model.Basic")
	for _, d := range deps[want] {
		fmt.Printf("import WebPkg.Gen.Funcs%s\n", strings.ToUpper(d[:1])+d[1:])
	}
	fmt.Println("set_option linter.unusedVariables false")
	fmt.Println("namespace WebPkg.Gen.Funcs")
	fmt.Printf("\nnamespace %s\n%send %s\n", want, pkgs[want].out.String(), want)
	fmt.Println("\nend WebPkg.Gen.Funcs")
}
